#!/usr/bin/env python3
"""record a seeded change produced by a sub-agent:  record_seed.py <id> <PID> <missed_first:0|1> '<caught_by;...>' '<confirmed_by_me text>' ['<strengthening>']"""
import json, os, shutil, sys
sid, pid, missed, caught, confirmed = sys.argv[1:6]
strengthening = sys.argv[6] if len(sys.argv) > 6 else None
src = '/tmp/seed/%s/SEED' % sid
dst = '/verif/seeded/%s' % sid
os.makedirs(dst, exist_ok=True)
shutil.copy(os.path.join(src, 'patch.diff'), os.path.join(dst, 'patch.diff'))
if os.path.isdir(os.path.join(dst, 'demo')):
    shutil.rmtree(os.path.join(dst, 'demo'))
shutil.copytree(os.path.join(src, 'demo'), os.path.join(dst, 'demo'))
am = json.load(open(os.path.join(src, 'meta.agent.json')))
json.dump(am, open(os.path.join(dst, 'meta.agent.json'), 'w'), indent=1)
meta = dict(property=pid, id=sid, summary=am.get('summary'), needs_to_manifest=am.get('needs_to_manifest'), files_changed=am.get('files_changed'),
            origin='independent sub-agent working only from the property text in a scratch worktree',
            existing_test_suite=am.get('test_suite'), confirmed_by_me=confirmed, caught_by=[c for c in caught.split(';') if c],
            missed_first=bool(int(missed)))
if strengthening:
    meta['strengthening'] = strengthening
json.dump(meta, open(os.path.join(dst, 'meta.json'), 'w'), indent=1)
print('recorded', dst)
