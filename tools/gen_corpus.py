#!/usr/bin/env python3
"""Writes the hand-designed part of /verif/corpus (the concrete program dimension of the bounded claims)."""
import os
D = os.path.join(os.path.dirname(os.path.dirname(os.path.abspath(__file__))), 'corpus')
os.makedirs(D, exist_ok=True)
P = {}
LARGE = {}      # programs with a very large state: only used by C06's sparse mode (corpus_large/)
# ---- G_op: one operator / intrinsic per program, operands are dsp inputs -------------------------------
for name, op in [('add', '+'), ('sub', '-'), ('mul', '*'), ('div', '/'), ('mod', '%'), ('pow', '^'), ('eq', '=='), ('ne', '!='),
                 ('lt', '<'), ('le', '<='), ('gt', '>'), ('ge', '>='), ('and', '&&'), ('or', '||')]:
    P['op_' + name] = 'fn dsp(a:(float,float))->float{\n  a.0 %s a.1\n}\n' % op
P['op_neg'] = 'fn dsp(a:float)->float{\n  -a\n}\n'
for f in ['sin', 'cos', 'tan', 'sinh', 'cosh', 'tanh', 'asin', 'acos', 'atan', 'sqrt', 'abs', 'log', 'ceil', 'floor', 'round']:
    P['op_' + f] = 'fn dsp(a:float)->float{\n  %s(a)\n}\n' % f
for f in ['atan2', 'min', 'max', 'pow']:
    P['op_%s2' % f] = 'fn dsp(a:(float,float))->float{\n  %s(a.0, a.1)\n}\n' % f
P['op_not'] = 'fn dsp(a:float)->float{\n  not(a)\n}\n'
P['op_iftruth'] = 'fn dsp(a:float)->float{\n  if (a) 10.0 else 20.0\n}\n'
P['op_ifcmp'] = 'fn dsp(a:(float,float))->float{\n  if (a.0 > a.1) a.0 else a.1\n}\n'
P['op_now'] = 'fn dsp(a:float)->float{\n  now + a\n}\n'
P['op_samplerate'] = 'fn dsp(a:float)->float{\n  a / samplerate\n}\n'
P['op_arrget'] = 'fn dsp(a:float)->float{\n  let arr = [10.0, 20.0, 30.0, 40.0]\n  arr[a]\n}\n'
P['op_arith3'] = 'fn dsp(a:(float,float,float))->float{\n  (a.0 + a.1) * a.2 - a.0 / (a.1 + 1.5)\n}\n'
# ---- G_state ------------------------------------------------------------------------------------------------
P['st_self'] = 'fn dsp(a:float)->float{\n  self + a\n}\n'
P['st_selftuple'] = 'fn acc(x:float){\n  let (p, q) = self\n  (p + x, q * 0.5 + x)\n}\nfn dsp(a:float)->(float,float){\n  acc(a)\n}\n'
P['st_mem'] = 'fn dsp(a:float)->float{\n  mem(a) + a\n}\n'
P['st_mem2'] = 'fn dsp(a:float)->float{\n  mem(mem(a)) - mem(a * 2.0)\n}\n'
P['st_delay'] = 'fn dsp(a:(float,float))->float{\n  delay(6.0, a.0, a.1)\n}\n'
P['st_delayconst'] = 'fn dsp(a:float)->float{\n  delay(4.0, a, 2.0) + delay(3.0, a, 1.0)\n}\n'
P['st_counter'] = 'fn counter(inc:float){\n  self + inc\n}\nfn dsp(a:float)->float{\n  counter(a) + counter(1.0)\n}\n'
P['st_nested'] = 'fn lp(x:float, g:float){\n  x * (1.0 - g) + self * g\n}\nfn two(x:float){\n  lp(lp(x, 0.5), 0.25) + mem(x)\n}\nfn dsp(a:float)->float{\n  two(a) - two(a * 0.5)\n}\n'
P['st_osc'] = 'fn osc(f:float)->float{\n  (self + f) % 1.0\n}\nfn dsp(a:float)->float{\n  let x = osc(a)\n  delay(4.0, x, 2.0) + mem(a)\n}\n'
P['st_ifeq'] = 'fn cnt(x:float){\n  self + x\n}\nfn dsp(a:(float,float))->float{\n  if (a.0 > 0.5) cnt(a.1) else cnt(1.0)\n}\n'
P['st_ifone'] = 'fn cnt(x:float){\n  self + x\n}\nfn dsp(a:(float,float))->float{\n  let c = if (a.0 > 0.5) cnt(a.1) else a.1 * 2.0\n  c + cnt(0.25)\n}\n'
P['st_ifuneq'] = 'fn osc(f:float){\n  self + f\n}\nfn dsp(a:float)->float{\n  let o = osc(0.25)\n  let d = if (a > 0.5) delay(4.0, a, 2.0) else a * 2.0\n  o + d\n}\n'
P['st_ifcond'] = 'fn cnt(x:float){\n  self + x\n}\nfn dsp(a:float)->float{\n  if (cnt(a) > 2.0) 1.0 else mem(a)\n}\n'
P['st_ifnest'] = 'fn cnt(x:float){\n  self + x\n}\nfn dsp(a:(float,float))->float{\n  if (a.0 > 0.0) { if (a.1 > 0.0) cnt(1.0) else cnt(2.0) } else mem(a.1)\n}\n'
P['st_stereo'] = 'fn cnt(x:float){\n  self + x\n}\nfn dsp(a:(float,float))->(float,float){\n  (cnt(a.0), mem(a.1))\n}\n'
P['st_fbdelay'] = 'fn fb(x:float, g:float){\n  delay(5.0, x + self * g, 3.0)\n}\nfn dsp(a:float)->float{\n  fb(a, 0.5)\n}\n'
P['st_delaymem'] = 'fn dm(x:float){\n  delay(3.0, mem(x), 1.0)\n}\nfn dsp(a:float)->float{\n  dm(a) + dm(a + 1.0)\n}\n'
P['st_delayfrac'] = 'fn cnt(x:float){\n  self + x\n}\nfn dsp(a:float)->float{\n  let d = delay(2.5, a, 1.0)\n  d + cnt(1.0)\n}\n'
P['st_delayfraclast'] = 'fn dsp(a:(float,float))->float{\n  mem(a.0) + delay(3.25, a.0, a.1)\n}\n'
P['st_selfnested'] = 'fn acc(x:float){\n  let ((p, q), r) = self\n  ((p + x, q + 1.0), r + p)\n}\nfn cnt(x:float){\n  self + x\n}\nfn dsp(a:float)->float{\n  let ((p, q), r) = acc(a)\n  p + q + r + cnt(1.0)\n}\n'
# ---- G_ctrl -------------------------------------------------------------------------------------------------
P['ct_let'] = 'fn dsp(a:(float,float))->float{\n  let x = a.0 * 2.0\n  let y = x + a.1\n  let z = y * y\n  z - x\n}\n'
P['ct_tuple'] = 'fn swap(p:(float,float)){\n  let (x, y) = p\n  (y, x)\n}\nfn dsp(a:(float,float))->(float,float){\n  swap(a)\n}\n'
P['ct_record'] = 'fn dsp(a:(float,float))->float{\n  let r = {freq = a.0, amp = a.1}\n  r.freq * r.amp + r.amp\n}\n'
P['ct_calls'] = 'fn sq(x:float){\n  x * x\n}\nfn hyp(x:float, y:float){\n  sqrt(sq(x) + sq(y))\n}\nfn dsp(a:(float,float))->float{\n  hyp(a.0, a.1)\n}\n'
P['ct_pipe'] = 'fn dbl(x:float){\n  x * 2.0\n}\nfn inc(x:float){\n  x + 1.0\n}\nfn dsp(a:float)->float{\n  a |> dbl |> inc\n}\n'
P['ct_global'] = 'let gain = 0.5\nlet offset = gain * 3.0\nfn dsp(a:float)->float{\n  a * gain + offset\n}\n'
P['ct_stereoout'] = 'fn dsp(a:float)->(float,float){\n  (a * 0.5, a + 1.0)\n}\n'
P['ct_ifchain'] = 'fn dsp(a:float)->float{\n  if (a < 0.0) 0.0 - a else if (a < 1.0) a * a else 1.0\n}\n'
P['ct_noin'] = 'fn dsp()->float{\n  1.0 + 2.0 * 3.0\n}\n'
P['ct_arrset'] = 'fn dsp(a:(float,float))->float{\n  let arr = [1.0, 2.0, 3.0]\n  arr[a.0] + arr[a.1]\n}\n'
P['ct_ifseq'] = 'fn dsp(a:float)->float{\n  let p = if (a) 1.0 else 2.0\n  let q = if (a) 10.0 else 20.0\n  p + q\n}\n'
P['ct_ifseq3'] = 'fn dsp(a:(float,float))->float{\n  let p = if (a.0) 1.0 else 2.0\n  let q = if (a.1) 10.0 else 20.0\n  let r = if (a.0 - a.1) 100.0 else 200.0\n  p + q + r\n}\n'
P['ct_ifinthen'] = 'fn dsp(a:(float,float))->float{\n  if (a.0) { if (a.1) 1.0 else 2.0 } else 3.0\n}\n'
P['ct_ifinelse'] = 'fn dsp(a:(float,float))->float{\n  if (a.0) 1.0 else { if (a.1) 2.0 else 3.0 }\n}\n'
P['ct_ifcall'] = 'fn pick(c:float, x:float){\n  if (c) x else 0.0 - x\n}\nfn dsp(a:(float,float))->float{\n  let p = pick(a.0, 1.0)\n  let q = if (a.1) pick(a.1, 2.0) else 5.0\n  p + q\n}\n'
P['ct_ifafterstate'] = 'fn cnt(x:float){\n  self + x\n}\nfn dsp(a:float)->float{\n  let c = cnt(1.0)\n  let p = if (a) c else 0.0\n  let q = if (a - 1.0) 10.0 else 20.0\n  p + q\n}\n'
P['ct_matchf'] = 'fn pick(n){\n    match n {\n        0 => 100\n        1 => 200\n        _ => 300\n    }\n}\nfn dsp(a:float)->float{\n  pick(a)\n}\n'
P['ct_matchneg'] = 'fn pick(n){\n    match n {\n        0 => 20\n        1 => 10\n        2 => 30\n        _ => 40\n    }\n}\nfn dsp(a:(float,float))->float{\n  pick(a.0) + pick(a.1 * 0.5)\n}\n'
P['ct_matchstate'] = 'fn cnt(x:float){\n  self + x\n}\nfn dsp(a:float)->float{\n  let c = cnt(1.0)\n  match a {\n    0 => c\n    1 => 0.0 - c\n    _ => 0.5\n  }\n}\n'
# arrays of multi-word elements x where the array lives x where the index comes from (element width matters for index clamping)
ELEMS = {'t2': ('[(1.0,10.0),(2.0,20.0)]', 'let (x,y) = %s\n  x + y'),
         't3': ('[(1.0,10.0,100.0),(2.0,20.0,200.0),(3.0,30.0,300.0)]', 'let (x,y,z) = %s\n  x + y + z')}
for en, (lit, use) in ELEMS.items():
    P['ct_arr%s_in' % en] = 'fn dsp(a:float)->float{\n  let arr = %s\n  %s\n}\n' % (lit, use % 'arr[a]')
    P['ct_arr%s_glob' % en] = 'let arr = %s\nfn dsp(a:float)->float{\n  %s\n}\n' % (lit, use % 'arr[a]')
    P['ct_arr%s_cnt' % en] = 'let arr = %s\nfn counter(){\n  self + 1\n}\nfn dsp(a:float)->float{\n  %s\n}\n' % (lit, use % 'arr[counter() - 1 + a]')
    P['ct_arr%s_oor' % en] = 'fn dsp(a:float)->float{\n  let arr = %s\n  %s\n}\n' % (lit, (use % 'arr[5]') + ' + a')
# a stateful call in every expression position, followed by a second stateful site (so that a wrong layout makes them overlap)
CNT = 'fn cnt(x:float){\n  self + x\n}\nfn lp(x:float){\n  x * 0.5 + self * 0.5\n}\n'
POS = {
    'idx': 'let t = [10.0, 20.0, 30.0, 40.0]\n  t[cnt(1.0)]',
    'arrlit': 'let t = [cnt(1.0), 2.0, a]\n  t[1.0] + t[0.0]',
    'tuple': 'let t = (cnt(1.0), a)\n  t.0 + t.1',
    'arg': 'max(cnt(1.0), a)',
    'binl': 'cnt(1.0) * a',
    'binr': 'a - cnt(1.0)',
    'cond': 'if (cnt(1.0) - 2.0) a else 0.5',
    'scrut': 'match cnt(1.0) {\n    1 => a\n    2 => 5.0\n    _ => 0.25\n  }',
    'memarg': 'mem(cnt(1.0))',
    'delayarg': 'delay(3.0, cnt(1.0), 1.0)',
    'delaytime': 'delay(4.0, a, cnt(1.0))',
    'nestedarg': 'lp(cnt(a))',
    'cmp': 'cnt(1.0) > a',
    'neg': '-cnt(1.0)',
}
for k, e in POS.items():
    P['st_pos_%s' % k] = CNT + 'fn pick(a:float){\n  %s\n}\nfn dsp(a:float)->(float,float){\n  let p = pick(a)\n  let q = cnt(100.0)\n  (p, q)\n}\n' % e
# identifiers that only differ before name mangling (module paths use `$` internally, backends sanitise names)
P['ct_modclash'] = 'mod util {\n  pub fn gain(x:float){\n    x * 2.0\n  }\n}\nfn util_gain(x:float){\n  x + 3.0\n}\nfn dsp(a:float)->float{\n  util::gain(a) + util_gain(a) * 10.0\n}\n'
P['ct_modstate'] = 'mod osc {\n  pub fn cnt(x:float){\n    self + x\n  }\n}\nfn osc_cnt(x:float){\n  self * 0.5 + x\n}\nfn dsp(a:float)->float{\n  osc::cnt(a) + osc_cnt(a) * 10.0\n}\n'
P['ct_namelike'] = 'fn lambda_0(x:float){\n  x + 1.0\n}\nfn dsp_(x:float){\n  x * 2.0\n}\nfn _mimium_x(x:float){\n  x - 1.0\n}\nfn dsp(a:float)->float{\n  let f = |x| x * 3.0\n  f(lambda_0(a)) + dsp_(a) + _mimium_x(a)\n}\n'
P['ct_tuplearr'] = 'fn dsp(a:float)->float{\n  let t = ([1.0, 2.0, 3.0], 5.0)\n  t.0[a] + t.1\n}\n'
P['ct_blocklet'] = 'fn dsp(a:float)->float{\n  let x = 1.0\n  let y = {\n    let x = a * 2.0\n    x + 1.0\n  }\n  x + y * 10.0\n}\n'
P['ct_arrempty'] = 'fn dsp(a:float)->float{\n  let t = []\n  t[a] + 1.0\n}\n'
P['ct_arremptyarg'] = 'fn pick(t:[float], i:float){\n  t[i] * 2.0\n}\nfn dsp(a:float)->float{\n  pick([], a) + pick([a, 1.0], a)\n}\n'
# a state larger than 2^16 words (long delay line followed by another cell): size arithmetic in narrow integer types
LARGE['st_delaylong'] = 'fn cnt(x:float){\n  self + x\n}\nfn dsp(a:float)->float{\n  let c = cnt(1.0)\n  let d = delay(70000.0, c + a, 100.0)\n  d + mem(c)\n}\n'
# ---- G_cls --------------------------------------------------------------------------------------------------
P['cl_hof'] = 'fn apply(f:(float)->float, x:float){\n  f(x)\n}\nfn dsp(a:float)->float{\n  apply(|x| x * 3.0, a)\n}\n'
P['cl_capture'] = 'fn dsp(a:(float,float))->float{\n  let k = a.0\n  let f = |x| x * k + 1.0\n  f(a.1)\n}\n'
P['cl_make'] = 'fn mk(g:float){\n  |x| x * g\n}\nfn dsp(a:float)->float{\n  let f = mk(0.5)\n  f(a)\n}\n'
P['cl_state'] = 'fn mkcnt(inc:float){\n  | | { self + inc }\n}\nlet c = mkcnt(0.25)\nfn dsp(a:float)->float{\n  c() + a\n}\n'
P['cl_assign'] = 'fn dsp(a:float)->float{\n  let x = a\n  let f = | | { x = x + 1.0\n  x }\n  f() + f()\n}\n'
# closure creation site (dsp / value-returning fn / unit-returning fn) x use (applied inline / let-bound / passed on)
P['cl_inline'] = 'fn dsp(a:float)->float{\n  (|y| {y * 2.0 + a})(1.0)\n}\n'
P['cl_valfn'] = 'let acc = 0.0\nfn bump(k:float){\n  acc = (|y| {y * k + acc})(1.0)\n  acc\n}\nfn dsp(a:float)->float{\n  bump(a)\n}\n'
P['cl_unitfn'] = 'let acc = 0.0\nfn bump(k:float){\n  acc = (|y| {y * k + acc})(1.0)\n}\nfn dsp(a:float)->float{\n  bump(a)\n  acc\n}\n'
P['cl_unitlet'] = 'let acc = 0.0\nfn bump(k:float){\n  let f = |y| {y * k}\n  acc = f(acc + 1.0)\n}\nfn dsp(a:float)->float{\n  bump(a)\n  acc\n}\n'
P['cl_unithof'] = 'let acc = 0.0\nfn apply(f:(float)->float, x:float){\n  f(x)\n}\nfn bump(k:float){\n  acc = apply(|y| {y + k}, acc)\n}\nfn dsp(a:float)->float{\n  bump(a)\n  acc\n}\n'
# boxed recursive variants built, tested with a wildcard match and dropped inside dsp (the shape that is steady on the VM);
# payload layouts: scalar / pair / record before the recursive field, two recursive fields, nested variant by value
P['cl_boxscalar'] = 'type rec List = Nil | Cons(float, List)\nfn dsp(a:float)->float{\n  let l = Cons(a, Nil);\n  match l { Nil => 0.0, _ => 1.0 }\n}\n'
P['cl_boxpair'] = 'type rec PList = PNil | PCons((float, float), PList)\nfn dsp(a:float)->float{\n  let l = PCons((a, 1.0), PNil);\n  match l { PNil => 0.0, _ => 1.0 }\n}\n'
P['cl_boxtree'] = 'type rec PTree = Leaf | Node((float, float), PTree, PTree)\nfn dsp(a:float)->float{\n  let t = Node((a, 2.0), Leaf, Leaf);\n  match t { Leaf => 0.0, _ => 1.0 }\n}\n'
P['cl_boxtwo'] = 'type rec T = L | N(float, T, T)\nfn dsp(a:float)->float{\n  let t = N(a, N(1.0, L, L), L);\n  match t { L => 0.0, _ => 1.0 }\n}\n'
P['cl_boxtriple'] = 'type rec Q = E | C((float, float, float), float, Q)\nfn dsp(a:float)->float{\n  let q = C((a, 1.0, 2.0), 3.0, C((0.0, 0.0, 0.0), a, E));\n  match q { E => 0.0, _ => 1.0 }\n}\n'
for k, v in P.items():
    with open(os.path.join(D, k + '.mmm'), 'w') as f:
        f.write(v)
os.makedirs(D + '_large', exist_ok=True)
for k, v in LARGE.items():
    with open(os.path.join(D + '_large', k + '.mmm'), 'w') as f:
        f.write(v)
print(len(P), 'programs')
