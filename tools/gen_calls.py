#!/usr/bin/env python3
"""Generator of ARGUMENT-PASSING programs (corpus group `ga_`, C02 programs `g_NNN`).

Every genuine defect that independent reviewers reported on the side while seeding changes was a call-ABI shape the hand-written
corpus did not contain: tuple-returning calls passed directly as arguments, a closure value called with (call result, tuple literal,
call result), a closure capturing a parameter that sits behind a tuple parameter next to a sibling closure, an assignment to a
grandparent local.  This generator draws such shapes systematically: helper functions with 1-4 parameters of mixed word sizes
(float, pairs, triples) returning floats or tuples; arguments that are input projections, literals, tuple literals, let-bound
tuples and (nested) call results; calls made directly, through closure values, through a higher-order function and from nested
closures that capture parameters of their parent and grandparent.  Bodies are weighted sums with pairwise different weights, so
that any mix-up of two words changes the result.

Programs are built in the abstract syntax of checks/lang.py: C02 evaluates them with the reference semantics (a miscompilation
shared by both backends is visible), and the rendered source goes to /verif/corpus/ga_NNN.mmm for C01 / C03 / C05 / C12 / C18.
Deterministic: program i is drawn from random.Random(7000 + i), independent of VERIF_SEED.
"""
import os
import random
import sys

sys.path.insert(0, os.path.dirname(os.path.dirname(os.path.abspath(__file__))))

F = 'float'
TY = {1: 'float', 2: '(float,float)', 3: '(float,float,float)'}
N = lambda x: ('num', float(x))
V = lambda n: ('var', n)
B = lambda op, a, b: ('bin', op, a, b)
WEIGHTS = [1.0, 10.0, 100.0, 1000.0, 0.5, 0.25, 3.0, 7.0, 20.0, 300.0, 0.125, 40.0]


def leaves(expr, n):
    """the float components of an expression of word size n"""
    return [expr] if n == 1 else [('proj', expr, i) for i in range(n)]


def wsum(terms, rng):
    """weighted sum with pairwise different weights"""
    ws = rng.sample(WEIGHTS, min(len(terms), len(WEIGHTS)))
    acc = None
    for t, w in zip(terms, ws):
        x = t if w == 1.0 else B('*', t, N(w))
        acc = x if acc is None else B('+', acc, x)
    return acc if acc is not None else N(0)


class G(object):
    def __init__(self, i):
        self.rng = random.Random(7000 + i)
        self.fns = []
        self.sigs = {}      # name -> ([param sizes], ret size)

    def helper(self, ret=None):
        rng = self.rng
        name = 'h%d' % len(self.sigs)
        sizes = [rng.choice([1, 1, 2, 2, 3]) for _ in range(rng.randint(1, 4))]
        ret = ret or rng.choice([1, 1, 2, 3])
        params = [('p%d' % k, TY[s]) for k, s in enumerate(sizes)]
        comps = [c for k, s in enumerate(sizes) for c in leaves(V('p%d' % k), s)]
        if ret == 1:
            body = wsum(comps, rng)
        else:
            # elements are bound first: a tuple literal whose first element starts with `(` trips the parser
            elems = [wsum(rng.sample(comps, max(1, min(len(comps), rng.randint(1, 3)))), rng) for _ in range(ret)]
            body = ('tuple', [V('e%d' % k) for k in range(ret)])
            for k in reversed(range(ret)):
                body = ('let', 'e%d' % k, elems[k], body)
        self.fns.append((name, params, body))
        self.sigs[name] = (sizes, ret)
        return name

    def arg(self, size, env, depth):
        """an argument expression of word size `size`; env: [(name, size)]"""
        rng = self.rng
        r = rng.random()
        same = [n for n, s in env if s == size]
        if depth > 0 and r < 0.4:
            cands = [n for n, (ps, rt) in self.sigs.items() if rt == size]
            if cands:
                f = rng.choice(cands)
                return ('call', f, [self.arg(s, env, depth - 1) for s in self.sigs[f][0]])
        if same and r < 0.7:
            return V(rng.choice(same))
        if size == 1:
            bigger = [(n, s) for n, s in env if s > 1]
            if bigger and r < 0.9:
                n, s = rng.choice(bigger)
                return ('proj', V(n), rng.randrange(s))
            return N(rng.choice([1, 2, 3, 5, 0.5]))
        # the first element of a tuple literal is never a call: `(f(x), y)` does not parse
        return ('tuple', [self.arg(1, env, (depth - 1 if depth > 0 else 0) if k else 0) for k in range(size)])

    def program(self, mode):
        rng = self.rng
        for _ in range(rng.randint(2, 3)):
            self.helper()
        if not any(rt > 1 for (_, rt) in self.sigs.values()):
            self.helper(ret=2)
        env = [('a', 2)]
        target = rng.choice(list(self.sigs))
        sizes, rt = self.sigs[target]
        if mode == 'direct':
            call = ('call', target, [self.arg(s, env, 2) for s in sizes])
            body = self.finish(call, rt)
        elif mode == 'letargs':
            # every argument is first bound with let, then passed
            names = ['t%d' % k for k in range(len(sizes))]
            call = ('call', target, [V(n) for n in names])
            body = self.finish(call, rt)
            for n, s in reversed(list(zip(names, sizes))):
                body = ('let', n, self.arg(s, env, 2), body)
        elif mode == 'closure':
            # a closure value with mixed parameters, capturing the dsp input, called with computed arguments
            ps = [('q%d' % k, TY[s]) for k, s in enumerate(sizes)]
            inner = ('call', target, [V('q%d' % k) for k in range(len(sizes))])
            cbody = self.finish(inner, rt, B('*', ('proj', V('a'), 1), N(0.0625)))
            body = ('let', 'f', ('lambda', ps, cbody), ('callv', V('f'), [self.arg(s, env, 2) for s in sizes]))
        elif mode == 'hof':
            ps = [('q%d' % k, TY[s]) for k, s in enumerate(sizes)]
            # the parameter `f` stays unannotated: function types with tuple parameters do not parse
            self.fns.append(('apply', [('f', None)] + [('u%d' % k, TY[s]) for k, s in enumerate(sizes)],
                             ('callv', V('f'), [V('u%d' % k) for k in range(len(sizes))])))
            inner = ('call', target, [V('q%d' % k) for k in range(len(sizes))])
            body = ('let', 'g', ('lambda', ps, self.finish(inner, rt)), ('call', 'apply', [V('g')] + [self.arg(s, env, 2) for s in sizes]))
        elif mode == 'siblings':
            # two sibling closures with different parameter lists inside a function whose parameters have mixed sizes; the second one
            # captures the LAST parameter
            psz = [rng.choice([1, 2, 3]) for _ in range(rng.randint(2, 3))]
            pp = [('x%d' % k, TY[s]) for k, s in enumerate(psz)]
            last = 'x%d' % (len(psz) - 1)
            c1 = ('lambda', [('m', F), ('n', TY[2])], B('+', B('+', V('m'), ('proj', V('n'), 1)), leaves(V('x0'), psz[0])[0]))
            c2 = ('lambda', [], wsum(leaves(V(last), psz[-1]) + leaves(V('x0'), psz[0])[-1:], rng))
            fbody = ('let', 'c1', c1, ('let', 'c2', c2, B('+', ('callv', V('c1'), [N(1), ('tuple', [N(2), N(3)])]), B('*', ('callv', V('c2'), []), N(10000)))))
            self.fns.append(('sib', pp, fbody))
            body = ('call', 'sib', [self.arg(s, env, 1) for s in psz])
        elif mode == 'nested':
            # a closure inside a closure reading parameters of its parent and of its grandparent
            psz = [rng.choice([1, 2]) for _ in range(2)]
            pp = [('x%d' % k, TY[s]) for k, s in enumerate(psz)]
            inner = ('lambda', [('w', F)], wsum([V('w'), V('m')] + leaves(V('x1'), psz[1]) + leaves(V('x0'), psz[0])[:1], rng))
            outer = ('lambda', [('m', F), ('n', TY[2])], ('let', 'd', inner, B('+', ('callv', V('d'), [('proj', V('n'), 0)]), ('proj', V('n'), 1))))
            fbody = ('let', 'c', outer, ('callv', V('c'), [N(3), ('tuple', [N(4), N(5)])]))
            self.fns.append(('nest', pp, fbody))
            body = ('call', 'nest', [self.arg(s, env, 1) for s in psz])
        else:
            raise ValueError(mode)
        self.fns.append(('dsp', [('a', TY[2])], body))
        return dict(fns=self.fns, globals=[], self_arity={}, globals_last=False, safe_bodies=True)

    def finish(self, call, rt, extra=None):
        """a float from a call result of word size rt (plus an extra summand)"""
        if rt == 1:
            return call if extra is None else B('+', call, extra)
        s_ = wsum(leaves(V('r'), rt), self.rng)
        return ('let', 'r', call, s_ if extra is None else B('+', s_, extra))


MODES = ['direct', 'letargs', 'closure', 'hof', 'siblings', 'nested']
COUNT = 48


def programs():
    out = {}
    for i in range(COUNT):
        out['g_%03d' % i] = G(i).program(MODES[i % len(MODES)])
    return out


if __name__ == '__main__':
    from checks import lang
    d = os.path.join(os.path.dirname(os.path.dirname(os.path.abspath(__file__))), 'corpus')
    for name, p in sorted(programs().items()):
        src = lang.render_program(p)
        open(os.path.join(d, 'ga_%s.mmm' % name[2:]), 'w').write(src)
    print('wrote', COUNT, 'programs')
