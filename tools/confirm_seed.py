#!/usr/bin/env python3
"""Confirm a seeded change in its scratch worktree /tmp/seed/<id>:
   (1) with the change and WITHOUT the demo files the whole existing suite passes, (2) the demo fails with the change,
   (3) the demo passes without the change.  Writes /tmp/seed/confirm/<id>.json"""
import json, os, subprocess, sys, shutil, re
sid = sys.argv[1]
wt = '/tmp/seed/%s' % sid
env = dict(os.environ, CARGO_NET_OFFLINE='true', CARGO_PROFILE_DEV_DEBUG='0', CARGO_INCREMENTAL='0')
def sh(cmd, **kw):
    return subprocess.run(cmd, shell=True, cwd=wt, env=env, capture_output=True, text=True, **kw)
res = dict(id=sid)
patch = os.path.join(wt, 'SEED', 'patch.diff')
# normalise: tracked files at HEAD, then apply the patch
sh('git checkout -- .')
r = sh('git apply %s' % patch)
res['patch_applies'] = r.returncode == 0
untracked = [l for l in sh('git ls-files --others --exclude-standard').stdout.split('\n') if l and not l.startswith(('SEED/', 'target/')) and l != 'p.diff' and not l.endswith('.diff')]
res['demo_files'] = untracked
stash = os.path.join(wt, 'SEED', '_stash')
shutil.rmtree(stash, ignore_errors=True)
for f in untracked:
    os.makedirs(os.path.dirname(os.path.join(stash, f)), exist_ok=True)
    shutil.move(os.path.join(wt, f), os.path.join(stash, f))
r = sh('cargo nextest run --workspace --no-fail-fast --test-threads 8 --offline 2>&1 | tail -40', timeout=3600)
m = re.search(r'(\d+) tests? run: (\d+) passed(?: \((\d+) \w+\))?(?:, (\d+) failed)?', r.stdout)
res['suite_tail'] = r.stdout[-1500:]
res['suite_summary'] = m.group(0) if m else None
failed = re.findall(r'^\s+FAIL .*?\] +(\S+ \S+)', r.stdout, re.M)
res['suite_failed'] = sorted(set(failed))
if failed and all('symphonia' in f or 'readwav' in f for f in failed):
    r2 = sh('cargo nextest run -p mimium-symphonia --test-threads 1 --offline 2>&1 | tail -5', timeout=1200)
    res['symphonia_rerun'] = r2.stdout[-400:]
for f in untracked:
    os.makedirs(os.path.dirname(os.path.join(wt, f)), exist_ok=True)
    shutil.move(os.path.join(stash, f), os.path.join(wt, f))
# demo tests = untracked .rs files directly in a tests/ directory
demos = []
for f in untracked:
    m = re.match(r'(.*)/tests/([^/]+)\.rs$', f)
    if m:
        cargo = os.path.join(wt, m.group(1), 'Cargo.toml')
        name = None
        for l in open(cargo):
            mm = re.match(r'name\s*=\s*"([^"]+)"', l.strip())
            if mm:
                name = mm.group(1); break
        demos.append((name, m.group(2)))
res['demos'] = demos
def run_demos():
    out = []
    for pkg, t in demos:
        r = sh('cargo test -p %s --test %s --offline 2>&1 | tail -15' % (pkg, t), timeout=3600)
        m = re.search(r'test result: (\w+)\. (\d+) passed; (\d+) failed', r.stdout)
        out.append(dict(test=t, result=m.group(0) if m else r.stdout[-600:]))
    return out
res['demo_with_change'] = run_demos()
sh('git apply -R %s' % patch)
res['demo_without_change'] = run_demos()
sh('git apply %s' % patch)
json.dump(res, open('/tmp/seed/confirm/%s.json' % sid, 'w'), indent=1)
print(json.dumps({k: v for k, v in res.items() if k != 'suite_tail'}, indent=1))
