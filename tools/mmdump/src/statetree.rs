//! `mmdump statetree <spec.json>`: run the state-tree crate's patch planner on given skeletons.
use serde_json::{Value, json};

use crate::common::{guarded, skel_from_json};

fn run_one(spec: &Value) -> Value {
    let parse = || -> Result<_, String> {
        let old = skel_from_json(spec.get("old").ok_or("missing \"old\"")?)?;
        let new = skel_from_json(spec.get("new").ok_or("missing \"new\"")?)?;
        let old_storage = match spec.get("old_storage") {
            None | Some(Value::Null) => None,
            Some(v) => Some(
                serde_json::from_value::<Vec<u64>>(v.clone())
                    .map_err(|e| format!("bad old_storage: {e}"))?,
            ),
        };
        Ok((old, new, old_storage))
    };
    let (old, new, old_storage) = match parse() {
        Ok(v) => v,
        Err(e) => return json!({"error": e}),
    };
    let mut res = json!({
        "equal": Value::Null, "old_total": Value::Null, "new_total": Value::Null,
        "plan": Value::Null, "new_storage": Value::Null, "panic": Value::Null,
    });
    // Each stage is guarded separately so earlier results survive a later panic.
    let mut panic: Option<String> = None;
    let mut stage = |res: &mut Value, key: &str, f: &mut dyn FnMut() -> Value| {
        if panic.is_none() {
            match guarded(f) {
                Ok(v) => res[key] = v,
                Err(p) => panic = Some(format!("{key}: {p}")),
            }
        }
    };
    stage(&mut res, "equal", &mut || json!(old == new));
    stage(&mut res, "old_total", &mut || json!(old.total_size()));
    stage(&mut res, "new_total", &mut || json!(new.total_size()));
    let mut plan = None;
    stage(&mut res, "plan", &mut || {
        plan = state_tree::build_state_storage_patch_plan(old.clone(), new.clone());
        plan.as_ref().map_or(Value::Null, |p| {
            json!({
                "total_size": p.total_size,
                "patches": p.patches.iter().map(|c| json!({
                    "src_addr": c.src_addr, "dst_addr": c.dst_addr, "size": c.size
                })).collect::<Vec<_>>(),
            })
        })
    });
    stage(&mut res, "new_storage", &mut || match (&plan, &old_storage) {
        (Some(plan), given) => {
            let storage = given.clone().unwrap_or_else(|| {
                (0..old.total_size()).map(|i| 1000 + i).collect::<Vec<u64>>()
            });
            json!(state_tree::apply_state_storage_patch_plan(&storage, plan))
        }
        (None, Some(storage)) => json!(storage),
        (None, None) => Value::Null,
    });
    res["panic"] = json!(panic);
    res
}

pub fn run(spec: &Value) -> Value {
    match spec {
        Value::Array(specs) => Value::Array(specs.iter().map(run_one).collect()),
        one => run_one(one),
    }
}
