//! mmdump: dump compiler artefacts / replay programs on the real mimium runtimes as JSON.
//!
//! Build: RUSTFLAGS="--cfg mimium_verif" CARGO_TARGET_DIR=/verif/.cache/target-mmdump cargo build --offline
mod common;
mod compile;
mod ffi;
mod replay;
mod statetree;

use std::io::Write;

fn usage() -> ! {
    eprintln!(
        "usage:\n  mmdump compile <file.mmm> [--scheduler]\n  mmdump replay [--in-process] <spec.json|->\n  mmdump statetree <spec.json>\n  mmdump ffi <spec.json|->\n  mmdump bridge <spec.json|->"
    );
    std::process::exit(2);
}

fn main() {
    // Anything the libraries print to stdout goes to stderr; the JSON goes to the real stdout.
    let mut out = common::steal_stdout();
    common::install_panic_hook();

    let args: Vec<String> = std::env::args().skip(1).collect();
    let value = match args.first().map(String::as_str) {
        Some("compile") => {
            let mut file = None;
            let mut scheduler = false;
            for a in &args[1..] {
                match a.as_str() {
                    "--scheduler" => scheduler = true,
                    _ if file.is_none() => file = Some(a.clone()),
                    _ => usage(),
                }
            }
            compile::run(&file.unwrap_or_else(|| usage()), scheduler)
        }
        Some("replay") => match args.get(1).map(String::as_str) {
            Some("--in-process") => replay::run(&read_spec(args.get(2)), true),
            _ => replay::run(&read_spec(args.get(1)), false),
        },
        // internal: one backend in this process (used by `replay` to survive fatal aborts)
        Some("replay-one") => replay::run_one(
            &read_spec(args.get(1)),
            args.get(2).map(String::as_str).unwrap_or_else(|| usage()),
        ),
        Some("statetree") => statetree::run(&read_spec(args.get(1))),
        Some("ffi") => ffi::run(&read_spec(args.get(1))),
        Some("bridge") => ffi::run_bridge(&read_spec(args.get(1))),
        _ => usage(),
    };
    let text = serde_json::to_string(&value).expect("json serialisation");
    out.write_all(text.as_bytes()).unwrap();
    out.write_all(b"\n").unwrap();
    out.flush().unwrap();
    // Timed-out worker threads may still be spinning: never wait for them.
    std::process::exit(0);
}

fn read_spec(path: Option<&String>) -> serde_json::Value {
    let path = path.unwrap_or_else(|| usage());
    let text = if path == "-" {
        std::io::read_to_string(std::io::stdin()).expect("read stdin")
    } else {
        std::fs::read_to_string(path).unwrap_or_else(|e| {
            eprintln!("mmdump: cannot read {path}: {e}");
            std::process::exit(2);
        })
    };
    serde_json::from_str(&text).unwrap_or_else(|e| {
        eprintln!("mmdump: invalid JSON in {path}: {e}");
        std::process::exit(2);
    })
}
