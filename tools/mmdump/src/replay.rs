//! `mmdump replay <spec.json>`: run a program sample by sample on the real VM / WASM runtimes.
use std::{
    sync::{Arc, Mutex, atomic::Ordering, mpsc},
    time::Duration,
};

use mimium_audiodriver::{
    backends::local_buffer::LocalBufferDriver,
    driver::{RuntimeData, SampleRate, VmDspRuntime},
};
use mimium_lang::{
    compiler::WasmOutput,
    mir::StateType,
    runtime::{
        DspRuntime, ProgramPayload, Time,
        wasm::{
            WasmPluginFnMap,
            engine::{WasmDspRuntime, WasmEngine},
        },
    },
};
use serde::{Deserialize, Serialize};
use serde_json::{Value, json};
use state_tree::{StateStoragePatchPlan, patch::CopyFromPatch, tree::StateTreeSkeleton};

use crate::common::{errors_to_strings, guarded, load_src, make_ctx};

const SAMPLE_RATE: u32 = 48000;
const STACK_SIZE: usize = 256 << 20;

#[derive(Deserialize, Clone)]
struct Swap {
    at_step: usize,
    src_path: String,
    /// WASM only: how the CLI builds the payload.  "inprocess" = `prepare_hot_swap_wasm_payload(bytes, Some(skeleton),
    /// Some(ext_fns))` (recompile_file_inprocess); "subprocess" = `prepare_hot_swap_wasm_payload(bytes, None, None)`, which is
    /// what the native CLI does for the WASM backend (recompile_file -> try_compile_wasm_in_subprocess returns bytes only).
    #[serde(default = "default_variant")]
    variant: String,
}
fn default_variant() -> String {
    "inprocess".into()
}

#[derive(Deserialize, Clone)]
struct Spec {
    src_path: String,
    #[serde(default = "default_backend")]
    backend: String,
    #[serde(default)]
    scheduler: bool,
    steps: usize,
    #[serde(default)]
    inputs: Option<Vec<Vec<u64>>>,
    #[serde(default)]
    init_state: Option<Vec<u64>>,
    #[serde(default)]
    now_start: u64,
    #[serde(default = "default_timeout")]
    timeout_s: f64,
    #[serde(default)]
    swaps: Vec<Swap>,
}
fn default_backend() -> String {
    "both".into()
}
fn default_timeout() -> f64 {
    20.0
}

#[derive(Serialize, Clone, Default)]
struct SwapResult {
    at_step: usize,
    src_path: String,
    ok: bool,
    errors: Vec<String>,
    /// the state storage right after the swap, before the next sample runs
    #[serde(skip_serializing_if = "Option::is_none")]
    state_after_swap: Option<Vec<u64>>,
}

#[derive(Serialize, Clone, Default)]
struct Trace {
    compile_ok: bool,
    errors: Vec<String>,
    panic: Option<String>,
    timeout: bool,
    /// true when the program has no dsp io info; real drivers refuse to start then, so no step is run.
    no_io_info: bool,
    io: Value,
    /// Set only when the backend child process died (abort / signal); the rest is then empty.
    #[serde(skip_serializing_if = "Option::is_none")]
    crash: Option<String>,
    steps_done: usize,
    outputs: Vec<Vec<u64>>,
    return_codes: Vec<i64>,
    state_after: Vec<Vec<u64>>,
    state_pos_after: Vec<usize>,
    /// VM only: (cursor, size, kind) of every state-storage access of the step (kind 0 read, 1 write, 2 ring)
    #[serde(skip_serializing_if = "Option::is_none")]
    state_accesses: Option<Vec<Vec<(usize, usize, u8)>>>,
    closures_len: Vec<usize>,
    heap_len: Vec<usize>,
    #[serde(skip_serializing_if = "Option::is_none")]
    arrays_len: Option<Vec<usize>>,
    state_after_main: Vec<u64>,
    global_vals_after_main: Option<Vec<u64>>,
    swaps: Vec<SwapResult>,
}

type Shared = Arc<Mutex<Trace>>;

fn with<R>(trace: &Shared, f: impl FnOnce(&mut Trace) -> R) -> R {
    f(&mut trace.lock().unwrap_or_else(|e| e.into_inner()))
}

/// Input words for step `k`, exactly `n_in` long (zero padded / truncated).
fn inputs_for(spec: &Spec, k: usize, n_in: usize) -> Vec<f64> {
    let mut v: Vec<f64> = spec
        .inputs
        .as_ref()
        .and_then(|i| i.get(k))
        .map(|row| row.iter().map(|b| f64::from_bits(*b)).collect())
        .unwrap_or_default();
    v.resize(n_in, 0.0);
    v
}

fn io_value(io: Option<mimium_lang::compiler::IoChannelInfo>) -> Value {
    crate::common::io_json(io)
}

// ---------------------------------------------------------------- VM

fn vm_of(rd: &mut RuntimeData) -> &mut mimium_lang::runtime::vm::Machine {
    &mut rd
        .downcast_runtime_mut::<VmDspRuntime>()
        .expect("runtime is VmDspRuntime")
        .vm
}

fn run_vm(spec: &Spec, trace: &Shared) {
    let (file, src) = match load_src(&spec.src_path) {
        Ok(v) => v,
        Err(e) => return with(trace, |t| t.errors.push(e)),
    };
    let mut driver = LocalBufferDriver::new(spec.steps);
    let mut ctx = make_ctx(&file, spec.scheduler, &driver);
    driver.count.store(spec.now_start, Ordering::Relaxed);

    match guarded(|| ctx.prepare_machine(&src)) {
        Ok(Ok(())) => with(trace, |t| t.compile_ok = true),
        Ok(Err(errs)) => return with(trace, |t| t.errors = errors_to_strings(&errs)),
        Err(p) => return with(trace, |t| t.panic = Some(format!("compile: {p}"))),
    }
    if let Err(p) = guarded(|| ctx.run_main()) {
        return with(trace, |t| t.panic = Some(format!("main: {p}")));
    }
    let mut rd = match RuntimeData::try_from(&mut ctx) {
        Ok(rd) => rd,
        Err(e) => return with(trace, |t| t.errors.push(e.to_string())),
    };
    // What `LocalBufferDriver::init` does besides taking ownership of the runtime.
    driver.set_sample_rate(SampleRate::from(SAMPLE_RATE));
    rd.runtime.set_sample_rate(SAMPLE_RATE as f64);

    {
        let vm = vm_of(&mut rd);
        let state = vm.verif_state_words().to_vec();
        let globals = vm.verif_global_vals().to_vec();
        with(trace, |t| {
            t.state_after_main = state;
            t.global_vals_after_main = Some(globals);
        });
        if let Some(init) = &spec.init_state {
            *vm.verif_state_words_mut() = init.clone();
        }
    }
    let io = rd.io_channels();
    with(trace, |t| t.io = io_value(io));
    if io.is_none() {
        return with(trace, |t| t.no_io_info = true);
    }

    for k in 0..spec.steps {
        for swap in spec.swaps.iter().filter(|s| s.at_step == k) {
            let mut res = SwapResult {
                at_step: k,
                src_path: swap.src_path.clone(),
                ..Default::default()
            };
            let compiled = load_src(&swap.src_path).and_then(|(f2, s2)| {
                let mut c2 = make_ctx(&f2, spec.scheduler, &driver);
                c2.prepare_compiler();
                match guarded(|| c2.get_compiler().unwrap().emit_bytecode(&s2)) {
                    Ok(Ok(prog)) => Ok(prog),
                    Ok(Err(errs)) => Err(errors_to_strings(&errs).join("\n")),
                    Err(p) => Err(format!("compiler panic: {p}")),
                }
            });
            match compiled {
                Ok(prog) => {
                    match guarded(|| rd.runtime.try_hot_swap(ProgramPayload::VmProgram(prog))) {
                        Ok(ok) => {
                            res.ok = ok;
                            res.state_after_swap = Some(vm_of(&mut rd).verif_state_words().to_vec());
                        }
                        Err(p) => {
                            res.errors.push(format!("panic: {p}"));
                            return with(trace, |t| {
                                t.swaps.push(res);
                                t.panic = Some(format!("hot swap before step {k}: {p}"));
                            });
                        }
                    }
                }
                Err(e) => res.errors.push(e),
            }
            with(trace, |t| t.swaps.push(res));
        }

        let now = spec.now_start + k as u64;
        driver.count.store(now, Ordering::Relaxed);
        let io = rd.io_channels();
        let (n_in, n_out) = io.map_or((0, 0), |io| (io.input as usize, io.output as usize));
        let input = inputs_for(spec, k, n_in);
        let _ = mimium_lang::runtime::vm::verif_take_state_accesses();
        let rc = match guarded(|| {
            if !input.is_empty() {
                rd.set_input(&input);
            }
            rd.run_dsp(Time(now))
        }) {
            Ok(rc) => rc,
            Err(p) => {
                let acc = mimium_lang::runtime::vm::verif_take_state_accesses();
                return with(trace, |t| {
                    t.state_accesses.get_or_insert_with(Vec::new).push(acc);
                    t.panic = Some(format!("dsp step {k}: {p}"))
                });
            }
        };
        let acc = mimium_lang::runtime::vm::verif_take_state_accesses();
        with(trace, |t| t.state_accesses.get_or_insert_with(Vec::new).push(acc));
        let out: Vec<u64> = rd.get_output(n_out).iter().map(|v| v.to_bits()).collect();
        let vm = vm_of(&mut rd);
        let state = vm.verif_state_words().to_vec();
        let (pos, ncls, nheap) = (vm.verif_state_pos(), vm.closures.len(), vm.heap.len());
        with(trace, |t| {
            t.outputs.push(out);
            t.return_codes.push(rc);
            t.state_after.push(state);
            t.state_pos_after.push(pos);
            t.closures_len.push(ncls);
            t.heap_len.push(nheap);
            t.steps_done = k + 1;
        });
    }
    // `ctx` owns the system plugins (scheduler); keep it alive for the whole run.
    drop(rd);
    drop(ctx);
}

// ---------------------------------------------------------------- WASM

/// Compile `path` to WASM with a fresh context configured like the initial one.
fn compile_wasm(path: &str, scheduler: bool) -> Result<WasmOutput, String> {
    let (file, src) = load_src(path)?;
    let driver = LocalBufferDriver::new(0);
    let mut ctx = make_ctx(&file, scheduler, &driver);
    ctx.prepare_compiler();
    match guarded(|| ctx.get_compiler().unwrap().emit_wasm(&src)) {
        Ok(Ok(out)) => Ok(out),
        Ok(Err(errs)) => Err(errors_to_strings(&errs).join("\n")),
        Err(p) => Err(format!("compiler panic: {p}")),
    }
}

/// Replica of mimium-cli `FileRunner::prepare_hot_swap_wasm_payload`
/// (+ `try_prewarm_wasm_global_state` + `build_required_state_patch_plan`).
fn prepare_wasm_payload(
    mut out: WasmOutput,
    previous_skeleton: Option<StateTreeSkeleton<StateType>>,
    plugin_fns: Option<WasmPluginFnMap>,
    subprocess: bool,
) -> Result<ProgramPayload, String> {
    if subprocess {
        // the subprocess hands back the module bytes only: no skeleton reaches prepare_hot_swap_wasm_payload
        out.dsp_state_skeleton = None;
    }
    let mut engine = WasmEngine::new(&out.ext_fns, plugin_fns)
        .map_err(|e| format!("failed to create prewarm wasm engine: {e}"))?;
    engine
        .load_module(&out.bytes)
        .map_err(|e| format!("failed to load module for prewarm: {e}"))?;
    let mut runtime = WasmDspRuntime::new(engine, None, None);
    runtime
        .run_main()
        .map_err(|e| format!("failed to run main for prewarm: {e}"))?;
    let prewarmed_global_state = runtime
        .engine_mut()
        .get_global_state_data()
        .map(|d| d.to_vec())
        .ok_or_else(|| "missing global state after prewarm".to_string())?;
    let prepared_engine = Box::new(runtime.into_engine());

    let state_patch_plan = match (previous_skeleton, out.dsp_state_skeleton.clone()) {
        (Some(old), Some(new)) => {
            let total_size = new.total_size() as usize;
            state_tree::build_state_storage_patch_plan(old, new).unwrap_or(StateStoragePatchPlan {
                total_size,
                patches: vec![CopyFromPatch {
                    src_addr: 0,
                    dst_addr: 0,
                    size: total_size,
                }],
            })
        }
        _ => StateStoragePatchPlan {
            total_size: prewarmed_global_state.len(),
            patches: vec![],
        },
    };
    Ok(ProgramPayload::WasmModule {
        bytes: out.bytes,
        prepared_engine,
        dsp_state_skeleton: out.dsp_state_skeleton,
        state_patch_plan,
        prewarmed_global_state,
    })
}

fn wasm_snapshot(rt: &mut WasmDspRuntime) -> (Vec<u64>, usize, usize, usize, usize) {
    let state = rt
        .engine_mut()
        .get_global_state_data()
        .map(|d| d.to_vec())
        .unwrap_or_default();
    let rs = rt
        .engine_mut()
        .current_module_mut()
        .and_then(|m| m.get_runtime_state_mut());
    match rs {
        Some(rs) => (
            state,
            rs.verif_state_pos(),
            rs.verif_closure_states_len(),
            rs.verif_heap_len(),
            rs.verif_arrays_len(),
        ),
        None => (state, 0, 0, 0, 0),
    }
}

fn run_wasm(spec: &Spec, trace: &Shared) {
    with(trace, |t| t.arrays_len = Some(vec![]));
    let (file, src) = match load_src(&spec.src_path) {
        Ok(v) => v,
        Err(e) => return with(trace, |t| t.errors.push(e)),
    };
    // The driver only contributes the `now`/`samplerate` type info here (same context as
    // `mmdump compile`); at run time the WASM backend reads them from its RuntimeState.
    let driver = LocalBufferDriver::new(spec.steps);
    let mut ctx = make_ctx(&file, spec.scheduler, &driver);
    ctx.prepare_compiler();
    let out = match guarded(|| ctx.get_compiler().unwrap().emit_wasm(&src)) {
        Ok(Ok(out)) => out,
        Ok(Err(errs)) => return with(trace, |t| t.errors = errors_to_strings(&errs)),
        Err(p) => return with(trace, |t| t.panic = Some(format!("compile: {p}"))),
    };
    // freeze_wasm_plugin_fns() must precede generate_wasm_audioworkers() (shared scheduler handle).
    let plugin_fns = ctx.freeze_wasm_plugin_fns();
    let plugin_fns_for_hotswap = plugin_fns.clone();
    let workers = ctx.generate_wasm_audioworkers();

    let engine = guarded(|| {
        let mut engine = WasmEngine::new(&out.ext_fns, plugin_fns)
            .map_err(|e| format!("Failed to create WASM engine: {e}"))?;
        engine
            .load_module(&out.bytes)
            .map_err(|e| format!("Failed to load WASM module: {e}"))?;
        Ok::<_, String>(engine)
    });
    let engine = match engine {
        Ok(Ok(engine)) => engine,
        Ok(Err(e)) => return with(trace, |t| t.errors.push(e)),
        Err(p) => return with(trace, |t| t.panic = Some(format!("load: {p}"))),
    };
    with(trace, |t| t.compile_ok = true);

    let mut current_skeleton = out.dsp_state_skeleton.clone();
    let mut rt = WasmDspRuntime::new(engine, out.io_channels, out.dsp_state_skeleton.clone());
    rt.set_wasm_audioworkers(workers);
    // Keep retired engines alive (the CLI drops them on a non-RT thread).
    let (retire_tx, _retire_rx) = mpsc::channel();
    rt.set_engine_retire_sender(retire_tx);
    let main_res = guarded(|| {
        ctx.run_wasm_on_init(rt.engine_mut());
        let r = rt.run_main();
        ctx.run_wasm_after_main(rt.engine_mut());
        r
    });
    match main_res {
        Ok(Ok(())) => {}
        // The CLI ignores a failing main (`let _ = run_main()`); record it and go on.
        Ok(Err(e)) => with(trace, |t| t.errors.push(format!("main: {e}"))),
        Err(p) => return with(trace, |t| t.panic = Some(format!("main: {p}"))),
    }
    // `Driver::init` sets the sample rate after main.
    DspRuntime::set_sample_rate(&mut rt, SAMPLE_RATE as f64);

    let (state, ..) = wasm_snapshot(&mut rt);
    with(trace, |t| t.state_after_main = state);
    if let Some(init) = &spec.init_state {
        rt.engine_mut().set_global_state_data(init);
    }
    let io = rt.io_channels();
    with(trace, |t| t.io = io_value(io));
    if io.is_none() {
        return with(trace, |t| t.no_io_info = true);
    }

    for k in 0..spec.steps {
        for swap in spec.swaps.iter().filter(|s| s.at_step == k) {
            let mut res = SwapResult {
                at_step: k,
                src_path: swap.src_path.clone(),
                ..Default::default()
            };
            let swapped = guarded(|| {
                let out = compile_wasm(&swap.src_path, spec.scheduler)?;
                let subprocess = swap.variant == "subprocess";
                let new_skeleton = if subprocess { None } else { out.dsp_state_skeleton.clone() };
                let payload = prepare_wasm_payload(
                    out,
                    current_skeleton.clone(),
                    plugin_fns_for_hotswap.clone(),
                    subprocess,
                )?;
                // As in the CLI, the "old program" record is updated once the payload is prepared.
                current_skeleton = new_skeleton;
                Ok::<_, String>(rt.try_hot_swap(payload))
            });
            if let Ok(Ok(_)) = &swapped {
                res.state_after_swap = Some(wasm_snapshot(&mut rt).0);
            }
            match swapped {
                Ok(Ok(ok)) => res.ok = ok,
                Ok(Err(e)) => res.errors.push(e),
                Err(p) => {
                    res.errors.push(format!("panic: {p}"));
                    return with(trace, |t| {
                        t.swaps.push(res);
                        t.panic = Some(format!("hot swap before step {k}: {p}"));
                    });
                }
            }
            with(trace, |t| t.swaps.push(res));
        }

        let now = spec.now_start + k as u64;
        let io = rt.io_channels();
        let (n_in, n_out) = io.map_or((0, 0), |io| (io.input as usize, io.output as usize));
        let input = inputs_for(spec, k, n_in);
        let rc = match guarded(|| {
            if !input.is_empty() {
                rt.set_input(&input);
            }
            rt.run_dsp(Time(now))
        }) {
            Ok(rc) => rc,
            Err(p) => return with(trace, |t| t.panic = Some(format!("dsp step {k}: {p}"))),
        };
        let out: Vec<u64> = rt.get_output(n_out).iter().map(|v| v.to_bits()).collect();
        let (state, pos, ncls, nheap, narr) = wasm_snapshot(&mut rt);
        with(trace, |t| {
            t.outputs.push(out);
            t.return_codes.push(rc);
            t.state_after.push(state);
            t.state_pos_after.push(pos);
            t.closures_len.push(ncls);
            t.heap_len.push(nheap);
            t.arrays_len.as_mut().unwrap().push(narr);
            t.steps_done = k + 1;
        });
    }
    drop(rt);
    drop(ctx);
}

// ---------------------------------------------------------------- driver

fn run_backend(spec: &Spec, body: fn(&Spec, &Shared)) -> Value {
    let trace: Shared = Arc::new(Mutex::new(Trace::default()));
    let (tx, rx) = mpsc::channel::<()>();
    let (spec2, trace2) = (spec.clone(), trace.clone());
    let spawned = std::thread::Builder::new()
        .name("mmdump-backend".into())
        .stack_size(STACK_SIZE)
        .spawn(move || {
            if let Err(p) = guarded(|| body(&spec2, &trace2)) {
                with(&trace2, |t| {
                    t.panic.get_or_insert(format!("outside guarded section: {p}"));
                });
            }
            let _ = tx.send(());
        });
    if let Err(e) = spawned {
        with(&trace, |t| t.errors.push(format!("cannot spawn backend thread: {e}")));
    } else {
        let timeout = Duration::try_from_secs_f64(spec.timeout_s).unwrap_or(Duration::from_secs(20));
        match rx.recv_timeout(timeout) {
            Ok(()) => {}
            Err(mpsc::RecvTimeoutError::Timeout) => with(&trace, |t| t.timeout = true),
            Err(mpsc::RecvTimeoutError::Disconnected) => with(&trace, |t| {
                t.panic.get_or_insert("backend thread died".to_string());
            }),
        }
    }
    let snapshot = with(&trace, |t| t.clone());
    serde_json::to_value(snapshot).expect("trace to json")
}

fn parse_spec(spec: &Value) -> Result<Spec, Value> {
    let spec: Spec = serde_json::from_value(spec.clone())
        .map_err(|e| json!({"error": format!("bad replay spec: {e}")}))?;
    match spec.backend.as_str() {
        "vm" | "wasm" | "both" => Ok(spec),
        other => Err(json!({"error": format!("unknown backend {other}")})),
    }
}

/// `mmdump replay-one <spec> <vm|wasm>`: one backend, in this process.
pub fn run_one(spec: &Value, backend: &str) -> Value {
    match parse_spec(spec) {
        Ok(spec) if backend == "vm" => run_backend(&spec, run_vm),
        Ok(spec) => run_backend(&spec, run_wasm),
        Err(e) => e,
    }
}

/// Run one backend in a child `mmdump replay-one - <backend>` so that fatal aborts
/// (native stack overflow in the VM, wasmtime aborts, ...) still yield a JSON record.
fn run_child(spec_json: &Value, spec: &Spec, backend: &str) -> Value {
    use std::io::{Read, Write};
    use std::process::{Command, Stdio};
    let crashed = |why: String| {
        let mut t = serde_json::to_value(Trace::default()).unwrap();
        t["crash"] = json!(why);
        t
    };
    let exe = match std::env::current_exe() {
        Ok(p) => p,
        Err(e) => return crashed(format!("cannot resolve current exe: {e}")),
    };
    let mut child = match Command::new(exe)
        .args(["replay-one", "-", backend])
        .stdin(Stdio::piped())
        .stdout(Stdio::piped())
        .stderr(Stdio::piped())
        .spawn()
    {
        Ok(c) => c,
        Err(e) => return crashed(format!("cannot spawn child: {e}")),
    };
    let mut stdin = child.stdin.take().unwrap();
    let text = spec_json.to_string();
    std::thread::spawn(move || {
        let _ = stdin.write_all(text.as_bytes());
    });
    let mut stdout = child.stdout.take().unwrap();
    let mut stderr = child.stderr.take().unwrap();
    let (tx, rx) = mpsc::channel();
    std::thread::spawn(move || {
        let mut buf = String::new();
        let _ = stdout.read_to_string(&mut buf);
        let _ = tx.send(buf);
    });
    let err_reader = std::thread::spawn(move || {
        let mut buf = Vec::new();
        let _ = stderr.read_to_end(&mut buf);
        let text = String::from_utf8_lossy(&buf).to_string();
        eprint!("{text}");
        text
    });
    // The child enforces timeout_s itself; this is only a backstop.
    let grace = Duration::try_from_secs_f64(spec.timeout_s + 15.0).unwrap_or(Duration::from_secs(35));
    let out = rx.recv_timeout(grace);
    if out.is_err() {
        let _ = child.kill();
    }
    let status = child.wait();
    let stderr_text = err_reader.join().unwrap_or_default();
    let tail: String = {
        let chars: Vec<char> = stderr_text.chars().collect();
        chars[chars.len().saturating_sub(600)..].iter().collect()
    };
    match out {
        Err(_) => {
            let mut t = crashed(format!("child did not finish within {grace:?}; killed"));
            t["timeout"] = json!(true);
            t
        }
        Ok(text) => match serde_json::from_str::<Value>(&text) {
            Ok(v) if status.as_ref().is_ok_and(|s| s.success()) => v,
            _ => crashed(format!(
                "child exited abnormally ({}); stderr tail: {tail}",
                status.map_or_else(|e| e.to_string(), |s| s.to_string())
            )),
        },
    }
}

/// `mmdump replay [--in-process] <spec>`.
pub fn run(spec_json: &Value, in_process: bool) -> Value {
    let spec = match parse_spec(spec_json) {
        Ok(s) => s,
        Err(e) => return e,
    };
    let mut out = serde_json::Map::new();
    for (name, body) in [("vm", run_vm as fn(&Spec, &Shared)), ("wasm", run_wasm)] {
        if spec.backend == name || spec.backend == "both" {
            let trace = if in_process {
                run_backend(&spec, body)
            } else {
                run_child(spec_json, &spec, name)
            };
            out.insert(name.into(), trace);
        }
    }
    Value::Object(out)
}
