//! Shared helpers: stdout isolation, panic capture, context construction, JSON conversions.
use std::{
    fs::File,
    os::fd::FromRawFd,
    panic::{AssertUnwindSafe, catch_unwind},
    path::{Path, PathBuf},
    sync::Mutex,
};

use mimium_audiodriver::{backends::local_buffer::LocalBufferDriver, driver::Driver};
use mimium_lang::{
    Config, ExecContext, compiler::IoChannelInfo, plugin::Plugin, utils::error::ReportableError,
};
use serde_json::{Value, json};
use state_tree::tree::{SizedType, StateTreeSkeleton};

unsafe extern "C" {
    fn dup(fd: i32) -> i32;
    fn dup2(oldfd: i32, newfd: i32) -> i32;
}

/// Redirect fd 1 to stderr and return a handle to the original stdout.
pub fn steal_stdout() -> File {
    unsafe {
        let saved = dup(1);
        assert!(saved >= 0, "dup(1) failed");
        assert!(dup2(2, 1) >= 0, "dup2(2,1) failed");
        File::from_raw_fd(saved)
    }
}

static LAST_PANIC: Mutex<Option<String>> = Mutex::new(None);

pub fn install_panic_hook() {
    std::panic::set_hook(Box::new(|info| {
        let msg = if let Some(s) = info.payload().downcast_ref::<&str>() {
            s.to_string()
        } else if let Some(s) = info.payload().downcast_ref::<String>() {
            s.clone()
        } else {
            "<non-string panic payload>".to_string()
        };
        let loc = info
            .location()
            .map(|l| format!("{}:{}:{}", l.file(), l.line(), l.column()))
            .unwrap_or_else(|| "<unknown location>".to_string());
        let text = format!("{msg} @ {loc}");
        eprintln!("mmdump: captured panic: {text}");
        *LAST_PANIC.lock().unwrap_or_else(|e| e.into_inner()) = Some(text);
    }));
}

/// Run `f`, turning a panic into `Err(message @ location)`.
pub fn guarded<T>(f: impl FnOnce() -> T) -> Result<T, String> {
    *LAST_PANIC.lock().unwrap_or_else(|e| e.into_inner()) = None;
    catch_unwind(AssertUnwindSafe(f)).map_err(|payload| {
        LAST_PANIC
            .lock()
            .unwrap_or_else(|e| e.into_inner())
            .take()
            .unwrap_or_else(|| {
                payload
                    .downcast_ref::<&str>()
                    .map(|s| s.to_string())
                    .or_else(|| payload.downcast_ref::<String>().cloned())
                    .unwrap_or_else(|| "<unknown panic>".to_string())
            })
    })
}

/// Same plugin set as `mimium_test::run_source_with_plugins`: audio driver plugin
/// (so `now`/`samplerate` link on the VM) and optionally the scheduler system plugin.
pub fn make_ctx(path: &Path, scheduler: bool, driver: &LocalBufferDriver) -> ExecContext {
    let audiodriverplug: Box<dyn Plugin> = Box::new(driver.get_as_plugin());
    let mut ctx = ExecContext::new(
        [audiodriverplug].into_iter(),
        Some(path.to_path_buf()),
        Config::default(),
    );
    if scheduler {
        ctx.add_system_plugin(mimium_scheduler::get_default_scheduler_plugin());
    }
    ctx
}

/// Canonicalise and load like `mimium_test::load_src`.
pub fn load_src(path: &str) -> Result<(PathBuf, String), String> {
    let file = PathBuf::from(path)
        .canonicalize()
        .map_err(|e| format!("cannot canonicalize {path}: {e}"))?;
    let src = mimium_lang::utils::fileloader::load(&file.to_string_lossy())
        .map_err(|e| format!("cannot load {}: {e}", file.display()))?;
    Ok((file, src))
}

pub fn errors_to_strings(errs: &[Box<dyn ReportableError>]) -> Vec<String> {
    errs.iter()
        .map(|e| {
            let labels = e
                .get_labels()
                .into_iter()
                .map(|(loc, msg)| {
                    format!(
                        "{}:{}..{}: {}",
                        loc.path.display(),
                        loc.span.start,
                        loc.span.end,
                        msg
                    )
                })
                .collect::<Vec<_>>();
            if labels.is_empty() {
                e.get_message()
            } else {
                format!("{} [{}]", e.get_message(), labels.join("; "))
            }
        })
        .collect()
}

pub fn io_json(io: Option<IoChannelInfo>) -> Value {
    io.map_or(Value::Null, |io| json!({"input": io.input, "output": io.output}))
}

pub fn skel_json<T: SizedType>(s: &StateTreeSkeleton<T>) -> Value {
    match s {
        StateTreeSkeleton::Delay { len } => json!({"k": "Delay", "len": len}),
        StateTreeSkeleton::Mem(t) => json!({"k": "Mem", "size": t.word_size()}),
        StateTreeSkeleton::Feed(t) => json!({"k": "Feed", "size": t.word_size()}),
        StateTreeSkeleton::FnCall(children) => json!({
            "k": "FnCall",
            "children": children.iter().map(|c| skel_json(c)).collect::<Vec<_>>()
        }),
    }
}

pub fn skel_from_json(v: &Value) -> Result<StateTreeSkeleton<u64>, String> {
    let k = v
        .get("k")
        .and_then(Value::as_str)
        .ok_or_else(|| format!("skeleton node without \"k\": {v}"))?;
    let num = |key: &str| {
        v.get(key)
            .and_then(Value::as_u64)
            .ok_or_else(|| format!("skeleton node {k} needs u64 field \"{key}\": {v}"))
    };
    match k {
        "Delay" => Ok(StateTreeSkeleton::Delay { len: num("len")? }),
        "Mem" => Ok(StateTreeSkeleton::Mem(num("size")?)),
        "Feed" => Ok(StateTreeSkeleton::Feed(num("size")?)),
        "FnCall" => {
            let children = v
                .get("children")
                .and_then(Value::as_array)
                .ok_or_else(|| format!("FnCall needs \"children\": {v}"))?;
            Ok(StateTreeSkeleton::FnCall(
                children
                    .iter()
                    .map(|c| skel_from_json(c).map(Box::new))
                    .collect::<Result<Vec<_>, _>>()?,
            ))
        }
        other => Err(format!("unknown skeleton kind {other}")),
    }
}
