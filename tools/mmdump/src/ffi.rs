//! `mmdump ffi <spec.json>`: push concrete `Value`s through the REAL plugin FFI encoding
//! (`serialize_value` / `deserialize_value`, i.e. `Value::to_ffi_value` + bincode + `FfiValue::to_value`) and report what
//! comes back.  Used by C20 to confirm (or refute) a shape the symbolic check flags.
//!
//! spec: a list of value descriptions
//!   {"k":"Number","bits":u64} {"k":"String","s":".."} {"k":"Unit"} {"k":"ErrorV"} {"k":"Code"}
//!   {"k":"Array"|"Tuple","c":[..]} {"k":"Record","c":[..],"keys":[..]} {"k":"TaggedUnion","tag":u64,"c":[v]}
//!   {"k":"Closure"|"Fixpoint"|"ExternalFn"|"Store"|"ConstructorFn"}
//! result per value: {"refused":bool,"error":..,"decoded":<description>|null,"equal":bool}
use std::cell::RefCell;
use std::rc::Rc;

use mimium_lang::ast::{Expr, Literal};
use mimium_lang::interner::ToSymbol;
use mimium_lang::interpreter::{ExtFunction, Value};
use mimium_lang::runtime::ffi_serde::{deserialize_value, serialize_value};
use mimium_lang::types::{PType, Type};
use mimium_lang::utils::environment::Environment;
use serde_json::{Value as J, json};

fn dummy_expr() -> mimium_lang::interner::ExprNodeId {
    Expr::Literal(Literal::Int(0)).into_id_without_span()
}

pub(crate) fn build(d: &J) -> Value {
    let kids = || -> Vec<Value> {
        d["c"]
            .as_array()
            .map(|a| a.iter().map(build).collect())
            .unwrap_or_default()
    };
    match d["k"].as_str().unwrap_or("") {
        "Number" => Value::Number(f64::from_bits(d["bits"].as_u64().unwrap_or(0))),
        "String" => Value::String(d["s"].as_str().unwrap_or("").to_symbol()),
        "Unit" => Value::Unit,
        "ErrorV" => Value::ErrorV(dummy_expr()),
        "Code" => Value::Code(dummy_expr()),
        "Array" => Value::Array(kids()),
        "Tuple" => Value::Tuple(kids()),
        "Record" => {
            let keys: Vec<String> = d["keys"]
                .as_array()
                .map(|a| a.iter().map(|k| k.as_str().unwrap_or("").to_string()).collect())
                .unwrap_or_default();
            Value::Record(
                kids()
                    .into_iter()
                    .enumerate()
                    .map(|(i, v)| {
                        let k = keys.get(i).cloned().unwrap_or_else(|| format!("f{i}"));
                        (k.to_symbol(), v)
                    })
                    .collect(),
            )
        }
        "TaggedUnion" => Value::TaggedUnion(
            d["tag"].as_u64().unwrap_or(0),
            Box::new(kids().into_iter().next().unwrap_or(Value::Unit)),
        ),
        "Closure" => Value::Closure(dummy_expr(), vec![], Environment::new()),
        "Fixpoint" => Value::Fixpoint("f".to_symbol(), dummy_expr()),
        "ExternalFn" => Value::ExternalFn(ExtFunction::new("ext".to_symbol(), |_| Value::Unit)),
        "Store" => Value::Store(Rc::new(RefCell::new(Value::Number(0.0)))),
        "ConstructorFn" => Value::ConstructorFn(
            0,
            "C".to_symbol(),
            Type::Primitive(PType::Numeric).into_id(),
        ),
        other => panic!("unknown value kind {other}"),
    }
}

pub(crate) fn describe(v: &Value) -> J {
    match v {
        Value::ErrorV(_) => json!({"k":"ErrorV"}),
        Value::Unit => json!({"k":"Unit"}),
        Value::Number(n) => json!({"k":"Number","bits":n.to_bits()}),
        Value::String(s) => json!({"k":"String","s":s.as_str()}),
        Value::Array(a) => json!({"k":"Array","c":a.iter().map(describe).collect::<Vec<_>>()}),
        Value::Tuple(a) => json!({"k":"Tuple","c":a.iter().map(describe).collect::<Vec<_>>()}),
        Value::Record(f) => json!({"k":"Record",
            "keys":f.iter().map(|(k,_)| k.as_str().to_string()).collect::<Vec<_>>(),
            "c":f.iter().map(|(_,v)| describe(v)).collect::<Vec<_>>()}),
        Value::Code(_) => json!({"k":"Code"}),
        Value::TaggedUnion(t, b) => json!({"k":"TaggedUnion","tag":t,"c":[describe(b)]}),
        Value::Closure(..) => json!({"k":"Closure"}),
        Value::Fixpoint(..) => json!({"k":"Fixpoint"}),
        Value::ExternalFn(_) => json!({"k":"ExternalFn"}),
        Value::Store(_) => json!({"k":"Store"}),
        Value::ConstructorFn(..) => json!({"k":"ConstructorFn"}),
    }
}

/// structural equality of two descriptions; Number payloads bit-exact
pub(crate) fn same(a: &J, b: &J) -> bool {
    if a["k"] != b["k"] {
        return false;
    }
    match a["k"].as_str().unwrap_or("") {
        "Number" => a["bits"] == b["bits"],
        "String" => a["s"] == b["s"],
        "TaggedUnion" if a["tag"] != b["tag"] => false,
        "Record" if a["keys"] != b["keys"] => false,
        _ => {
            let (x, y) = (a["c"].as_array(), b["c"].as_array());
            match (x, y) {
                (None, None) => true,
                (Some(x), Some(y)) => x.len() == y.len() && x.iter().zip(y).all(|(p, q)| same(p, q)),
                _ => false,
            }
        }
    }
}

pub fn run(spec: &J) -> J {
    let items = spec.as_array().cloned().unwrap_or_else(|| vec![spec.clone()]);
    let out: Vec<J> = items
        .iter()
        .map(|d| {
            let v = build(d);
            let before = describe(&v);
            match crate::common::guarded(|| serialize_value(&v)) {
                Err(p) => json!({"panic": p}),
                Ok(Err(e)) => json!({"refused": true, "error": e, "decoded": J::Null, "equal": false}),
                Ok(Ok(bytes)) => match crate::common::guarded(|| deserialize_value(&bytes)) {
                    Err(p) => json!({"refused": false, "panic": p}),
                    Ok(Err(e)) => json!({"refused": false, "decode_error": e, "decoded": J::Null, "equal": false}),
                    Ok(Ok(back)) => {
                        let after = describe(&back);
                        let eq = same(&before, &after);
                        json!({"refused": false, "decoded": after, "equal": eq, "bytes": bytes.len()})
                    }
                },
            }
        })
        .collect();
    J::Array(out)
}


// ------------------------------------------------------------------------------------------------
// `mmdump bridge <spec.json>`: the host side of the dynamic-plugin macro bridge on the real crate.
// spec: a list of invocations, each a list of value descriptions.  ONE closure obtained from
// `DynPluginMacroInfo::get_fn` is invoked once per entry; the in-process `extern "C"` plugin function has the ABI and the
// body `mimium-plugin-macros` generates (decode with deserialize_macro_args, call, encode with serialize_value) with the
// method "return the tuple of all arguments".  result per invocation: {"returned":<description>,"equal":bool} | {"panic":..}
// ------------------------------------------------------------------------------------------------
unsafe extern "C" fn echo_macro(
    _instance: *mut std::ffi::c_void,
    args_ptr: *const u8,
    args_len: usize,
    out_ptr: *mut *mut u8,
    out_len: *mut usize,
) -> i32 {
    unsafe {
        let bytes = std::slice::from_raw_parts(args_ptr, args_len);
        let args = match mimium_lang::runtime::ffi_serde::deserialize_macro_args(bytes) {
            Ok(a) => a,
            Err(_) => return -1,
        };
        let result = Value::Tuple(args.into_iter().map(|(v, _ty)| v).collect());
        let result_bytes = match serialize_value(&result) {
            Ok(b) => b,
            Err(_) => return -2,
        };
        let boxed = result_bytes.into_boxed_slice();
        *out_len = boxed.len();
        *out_ptr = Box::into_raw(boxed) as *mut u8;
        0
    }
}

pub fn run_bridge(spec: &J) -> J {
    use mimium_lang::plugin::MacroFunction;
    use mimium_lang::plugin::loader::{DynPluginMacroInfo, PluginInstance};
    let ty = Type::Primitive(PType::Numeric).into_id();
    let instance = std::ptr::NonNull::<PluginInstance>::dangling().as_ptr();
    let info = unsafe { DynPluginMacroInfo::new("echo".to_symbol(), ty, instance, echo_macro) };
    let f = info.get_fn();
    let invs = spec.as_array().cloned().unwrap_or_default();
    let out: Vec<J> = invs
        .iter()
        .map(|inv| {
            let vals: Vec<Value> = inv.as_array().map(|a| a.iter().map(build).collect()).unwrap_or_default();
            let expect = describe(&Value::Tuple(vals.clone()));
            let args: Vec<(Value, mimium_lang::interner::TypeNodeId)> = vals.into_iter().map(|v| (v, ty)).collect();
            match crate::common::guarded(|| (f.borrow())(&args)) {
                Err(p) => json!({"panic": p}),
                Ok(r) => {
                    let got = describe(&r);
                    json!({"returned": got.clone(), "equal": same(&expect, &got)})
                }
            }
        })
        .collect();
    J::Array(out)
}
