//! `mmdump compile <file.mmm> [--scheduler]`
use mimium_audiodriver::backends::local_buffer::LocalBufferDriver;
use mimium_lang::runtime::vm::{self, Instruction};
use serde_json::{Value, json};

use crate::common::{errors_to_strings, guarded, io_json, load_src, make_ctx, skel_json};

pub fn instr_json(instr: &Instruction) -> Value {
    let dbg = format!("{instr:?}");
    let op = dbg
        .split(['(', ' ', '{'])
        .next()
        .unwrap_or(dbg.as_str())
        .to_string();
    let imm: Option<u64> = match *instr {
        Instruction::MoveImmF(_, v) => Some(f64::from(v).to_bits()),
        Instruction::PushStatePos(v) | Instruction::PopStatePos(v) => Some(v.into()),
        _ => None,
    };
    json!({"dbg": dbg, "op": op, "imm": imm})
}

pub fn program_json(prog: &vm::Program) -> Value {
    let fns = prog
        .global_fn_table
        .iter()
        .map(|(name, f)| {
            json!({
                "name": name,
                "nparam": f.nparam,
                "nret": f.nret,
                "upindexes": f.upindexes.iter().map(|u| json!({
                    "pos": u.pos, "size": u.size, "is_closure": u.is_closure
                })).collect::<Vec<_>>(),
                "bytecodes": f.bytecodes.iter().map(instr_json).collect::<Vec<_>>(),
                "constants": f.constants,
                "delay_sizes": f.delay_sizes,
                "jump_tables": f.jump_tables.iter().map(|t| json!({
                    "min": t.min, "offsets": t.offsets
                })).collect::<Vec<_>>(),
                "state_skeleton": skel_json(&f.state_skeleton),
            })
        })
        .collect::<Vec<_>>();
    json!({
        "fns": fns,
        "ext_funs": prog.ext_fun_table.iter().map(|(name, ty)| json!({
            "name": name, "ty": ty.to_type().to_string()
        })).collect::<Vec<_>>(),
        "global_vals": prog.global_vals.iter().map(|w| w.0).collect::<Vec<_>>(),
        "strings": prog.strings,
        "io": io_json(prog.iochannels),
        "dsp_index": prog.dsp_index,
        "type_table_len": prog.type_table.len(),
        "type_table": prog.type_table.iter().map(|t| type_json(*t, 0)).collect::<Vec<_>>(),
    })
}

/// Structure of a type as the VM sees it through `TypeNodeId::to_type` (used by CloneUserSum / ReleaseUserSum);
/// recursion through `type rec` goes through `TypeAlias(name)`, which is a leaf here, so the tree is finite.
fn type_json(ty: mimium_lang::interner::TypeNodeId, depth: usize) -> Value {
    use mimium_lang::types::{PType, Type};
    if depth > 24 {
        return json!({"k": "TooDeep"});
    }
    let ws = ty.word_size();
    let mut v = match ty.to_type() {
        Type::Primitive(p) => json!({"k": "Primitive", "p": match p {
            PType::Unit => "Unit", PType::Int => "Int", PType::Numeric => "Numeric", PType::String => "String" }}),
        Type::Array(t) => json!({"k": "Array", "c": [type_json(t, depth + 1)]}),
        Type::Tuple(ts) => json!({"k": "Tuple", "c": ts.iter().map(|t| type_json(*t, depth + 1)).collect::<Vec<_>>()}),
        Type::Record(fs) => json!({"k": "Record",
            "keys": fs.iter().map(|f| f.key.as_str().to_string()).collect::<Vec<_>>(),
            "defaults": fs.iter().map(|f| f.has_default).collect::<Vec<_>>(),
            "c": fs.iter().map(|f| type_json(f.ty, depth + 1)).collect::<Vec<_>>()}),
        Type::Function { arg, ret } => json!({"k": "Function", "c": [type_json(arg, depth + 1), type_json(ret, depth + 1)]}),
        Type::Ref(t) => json!({"k": "Ref", "c": [type_json(t, depth + 1)]}),
        Type::Code(t) => json!({"k": "Code", "c": [type_json(t, depth + 1)]}),
        Type::Union(ts) => json!({"k": "Union", "c": ts.iter().map(|t| type_json(*t, depth + 1)).collect::<Vec<_>>()}),
        Type::UserSum { name, variants } => json!({"k": "UserSum", "name": name.as_str(),
            "variants": variants.iter().map(|(n, p)| json!({"name": n.as_str(), "payload": p.map(|t| type_json(t, depth + 1))})).collect::<Vec<_>>()}),
        Type::Boxed(t) => json!({"k": "Boxed", "c": [type_json(t, depth + 1)]}),
        Type::TypeAlias(n) => json!({"k": "TypeAlias", "name": n.as_str()}),
        Type::Any => json!({"k": "Any"}),
        Type::Failure => json!({"k": "Failure"}),
        Type::Unknown => json!({"k": "Unknown"}),
        Type::Intermediate(_) => json!({"k": "Intermediate"}),
        Type::TypeScheme(_) => json!({"k": "TypeScheme"}),
    };
    v["word_size"] = json!(ws);
    v
}

/// Flatten `Result<Result<T, errors>, panic>` into the common {ok, errors, panic} header.
fn header<T>(
    res: Result<Result<T, Vec<Box<dyn mimium_lang::utils::error::ReportableError>>>, String>,
) -> (Value, Option<T>) {
    match res {
        Ok(Ok(v)) => (json!({"ok": true, "errors": [], "panic": null}), Some(v)),
        Ok(Err(errs)) => (
            json!({"ok": false, "errors": errors_to_strings(&errs), "panic": null}),
            None,
        ),
        Err(p) => (json!({"ok": false, "errors": [], "panic": p}), None),
    }
}

pub fn run(path: &str, scheduler: bool) -> Value {
    let (file, src) = match load_src(path) {
        Ok(v) => v,
        Err(e) => {
            let fail = json!({"ok": false, "errors": [e], "panic": null});
            return json!({"src_path": path, "bytecode": fail, "wasm": fail, "rust": fail});
        }
    };
    let driver = LocalBufferDriver::new(0);
    let mut ctx = make_ctx(&file, scheduler, &driver);
    ctx.prepare_compiler();
    let compiler = ctx.get_compiler().unwrap();

    let (mut bytecode, prog) = header(guarded(|| compiler.emit_bytecode(&src)));
    bytecode["program"] = prog.as_ref().map_or(Value::Null, program_json);

    let (mut wasm, out) = header(guarded(|| compiler.emit_wasm(&src)));
    match out {
        Some(out) => {
            match guarded(|| wasmprinter::print_bytes(&out.bytes)) {
                Ok(Ok(wat)) => wasm["wat"] = json!(wat),
                Ok(Err(e)) => {
                    wasm["wat"] = Value::Null;
                    wasm["wat_error"] = json!(format!("{e:#}"));
                }
                Err(p) => {
                    wasm["wat"] = Value::Null;
                    wasm["wat_error"] = json!(format!("wasmprinter panic: {p}"));
                }
            }
            wasm["bytes_len"] = json!(out.bytes.len());
            wasm["dsp_state_skeleton"] =
                out.dsp_state_skeleton.as_ref().map_or(Value::Null, skel_json);
            wasm["io"] = io_json(out.io_channels);
        }
        None => {
            wasm["wat"] = Value::Null;
            wasm["bytes_len"] = json!(0);
            wasm["dsp_state_skeleton"] = Value::Null;
            wasm["io"] = Value::Null;
        }
    }

    let (mut rust, out) = header(guarded(|| compiler.emit_rust(&src)));
    match out {
        Some(out) => {
            rust["source"] = json!(out.source);
            rust["dsp_state_skeleton"] =
                out.dsp_state_skeleton.as_ref().map_or(Value::Null, skel_json);
            rust["io"] = io_json(out.io_channels);
        }
        None => {
            rust["source"] = Value::Null;
            rust["dsp_state_skeleton"] = Value::Null;
            rust["io"] = Value::Null;
        }
    }

    let mir_text = match guarded(|| compiler.emit_mir(&src)) {
        Ok(Ok(m)) => json!(format!("{m}")),
        _ => Value::Null,
    };

    json!({
        "src_path": file.to_string_lossy(),
        "mir": mir_text,
        "bytecode": bytecode,
        "wasm": wasm,
        "rust": rust,
    })
}
