//! `mmdump compile <file.mmm> [--scheduler]`
use mimium_audiodriver::backends::local_buffer::LocalBufferDriver;
use mimium_lang::runtime::vm::{self, Instruction};
use serde_json::{Value, json};

use crate::common::{errors_to_strings, guarded, io_json, load_src, make_ctx, skel_json};

pub fn instr_json(instr: &Instruction) -> Value {
    let dbg = format!("{instr:?}");
    let op = dbg
        .split(['(', ' ', '{'])
        .next()
        .unwrap_or(dbg.as_str())
        .to_string();
    let imm: Option<u64> = match *instr {
        Instruction::MoveImmF(_, v) => Some(f64::from(v).to_bits()),
        Instruction::PushStatePos(v) | Instruction::PopStatePos(v) => Some(v.into()),
        _ => None,
    };
    json!({"dbg": dbg, "op": op, "imm": imm})
}

pub fn program_json(prog: &vm::Program) -> Value {
    let fns = prog
        .global_fn_table
        .iter()
        .map(|(name, f)| {
            json!({
                "name": name,
                "nparam": f.nparam,
                "nret": f.nret,
                "upindexes": f.upindexes.iter().map(|u| json!({
                    "pos": u.pos, "size": u.size, "is_closure": u.is_closure
                })).collect::<Vec<_>>(),
                "bytecodes": f.bytecodes.iter().map(instr_json).collect::<Vec<_>>(),
                "constants": f.constants,
                "delay_sizes": f.delay_sizes,
                "jump_tables": f.jump_tables.iter().map(|t| json!({
                    "min": t.min, "offsets": t.offsets
                })).collect::<Vec<_>>(),
                "state_skeleton": skel_json(&f.state_skeleton),
            })
        })
        .collect::<Vec<_>>();
    json!({
        "fns": fns,
        "ext_funs": prog.ext_fun_table.iter().map(|(name, ty)| json!({
            "name": name, "ty": ty.to_type().to_string()
        })).collect::<Vec<_>>(),
        "global_vals": prog.global_vals.iter().map(|w| w.0).collect::<Vec<_>>(),
        "strings": prog.strings,
        "io": io_json(prog.iochannels),
        "dsp_index": prog.dsp_index,
        "type_table_len": prog.type_table.len(),
    })
}

/// Flatten `Result<Result<T, errors>, panic>` into the common {ok, errors, panic} header.
fn header<T>(
    res: Result<Result<T, Vec<Box<dyn mimium_lang::utils::error::ReportableError>>>, String>,
) -> (Value, Option<T>) {
    match res {
        Ok(Ok(v)) => (json!({"ok": true, "errors": [], "panic": null}), Some(v)),
        Ok(Err(errs)) => (
            json!({"ok": false, "errors": errors_to_strings(&errs), "panic": null}),
            None,
        ),
        Err(p) => (json!({"ok": false, "errors": [], "panic": p}), None),
    }
}

pub fn run(path: &str, scheduler: bool) -> Value {
    let (file, src) = match load_src(path) {
        Ok(v) => v,
        Err(e) => {
            let fail = json!({"ok": false, "errors": [e], "panic": null});
            return json!({"src_path": path, "bytecode": fail, "wasm": fail, "rust": fail});
        }
    };
    let driver = LocalBufferDriver::new(0);
    let mut ctx = make_ctx(&file, scheduler, &driver);
    ctx.prepare_compiler();
    let compiler = ctx.get_compiler().unwrap();

    let (mut bytecode, prog) = header(guarded(|| compiler.emit_bytecode(&src)));
    bytecode["program"] = prog.as_ref().map_or(Value::Null, program_json);

    let (mut wasm, out) = header(guarded(|| compiler.emit_wasm(&src)));
    match out {
        Some(out) => {
            match guarded(|| wasmprinter::print_bytes(&out.bytes)) {
                Ok(Ok(wat)) => wasm["wat"] = json!(wat),
                Ok(Err(e)) => {
                    wasm["wat"] = Value::Null;
                    wasm["wat_error"] = json!(format!("{e:#}"));
                }
                Err(p) => {
                    wasm["wat"] = Value::Null;
                    wasm["wat_error"] = json!(format!("wasmprinter panic: {p}"));
                }
            }
            wasm["bytes_len"] = json!(out.bytes.len());
            wasm["dsp_state_skeleton"] =
                out.dsp_state_skeleton.as_ref().map_or(Value::Null, skel_json);
            wasm["io"] = io_json(out.io_channels);
        }
        None => {
            wasm["wat"] = Value::Null;
            wasm["bytes_len"] = json!(0);
            wasm["dsp_state_skeleton"] = Value::Null;
            wasm["io"] = Value::Null;
        }
    }

    let (mut rust, out) = header(guarded(|| compiler.emit_rust(&src)));
    match out {
        Some(out) => {
            rust["source"] = json!(out.source);
            rust["dsp_state_skeleton"] =
                out.dsp_state_skeleton.as_ref().map_or(Value::Null, skel_json);
            rust["io"] = io_json(out.io_channels);
        }
        None => {
            rust["source"] = Value::Null;
            rust["dsp_state_skeleton"] = Value::Null;
            rust["io"] = Value::Null;
        }
    }

    let mir_text = match guarded(|| compiler.emit_mir(&src)) {
        Ok(Ok(m)) => json!(format!("{m}")),
        _ => Value::Null,
    };

    json!({
        "src_path": file.to_string_lossy(),
        "mir": mir_text,
        "bytecode": bytecode,
        "wasm": wasm,
        "rust": rust,
    })
}
