#!/usr/bin/env python3
"""Grammar-based program generator: the 'gn' corpus group (/verif/corpus/gn_NNN.mmm).

The hand-written groups (op_/st_/ct_/cl_) enumerate constructs one at a time; every seeded change that the checks missed
at first needed a COMBINATION the corpus did not contain (an `if` after an `if`, a match on a float input, an array of
tuples, a closure inside a unit function ...).  This generator draws small type-correct programs from a grammar of the
core language so that combinations appear without having been thought of.  It is deterministic (fixed seed per program
index, independent of VERIF_SEED): the files are committed, every one of them has been run through the checks on the
unchanged tree, and findings are keyed by these stable names.

Deliberately NOT generated (each is a recorded known finding that the fixed corpus already pins down, see DESIGN.md §4):
stateful calls inside `if` / `match` arms, two `delay` calls in one function, the builtin `not`, record default arguments,
closures created per sample (C12 leak).
"""
import os
import random
import sys

D = os.path.join(os.path.dirname(os.path.dirname(os.path.abspath(__file__))), 'corpus')

LITS = ['0.0', '1.0', '0.5', '2.0', '3.0', '0.25', '100.0', '1.5', '7.0']
BINOPS = ['+', '-', '*', '/', '%']
CMPS = ['<', '<=', '>', '>=', '==', '!=']
UNARY_FNS = ['sin', 'cos', 'abs', 'sqrt']
BIN_FNS = ['min', 'max']


class Gen(object):
    def __init__(self, rng):
        self.rng = rng
        self.fns = []          # source text of helper functions
        self.nfn = 0
        self.stateful_budget = 3
        self.branch_budget = 2

    # ---- float expressions --------------------------------------------------------------------------------
    def lit(self):
        return self.rng.choice(LITS)

    def atom(self, env):
        r = self.rng.random()
        if env and r < 0.7:
            return self.rng.choice(env)
        return self.lit()

    def expr(self, env, depth):
        rng = self.rng
        if depth <= 0:
            return self.atom(env)
        r = rng.random()
        if r < 0.30:
            return '(%s %s %s)' % (self.expr(env, depth - 1), rng.choice(BINOPS), self.expr(env, depth - 1))
        if r < 0.40:
            return '(%s %s %s)' % (self.expr(env, depth - 1), rng.choice(CMPS), self.expr(env, depth - 1))
        if r < 0.46:
            return '(%s %s %s)' % (self.expr(env, depth - 1), rng.choice(['&&', '||']), self.expr(env, depth - 1))
        if r < 0.54:
            return '%s(%s)' % (rng.choice(UNARY_FNS), self.expr(env, depth - 1))
        if r < 0.60:
            return '%s(%s, %s)' % (rng.choice(BIN_FNS), self.expr(env, depth - 1), self.expr(env, depth - 1))
        if r < 0.66:
            return '(-%s)' % self.atom(env)
        if r < 0.78 and self.branch_budget > 0:
            self.branch_budget -= 1
            return '(if (%s) %s else %s)' % (self.expr(env, depth - 1), self.arm(env, depth - 1), self.arm(env, depth - 1))
        if r < 0.84 and self.fns_pure:
            name, n = rng.choice(self.fns_pure)
            return '%s(%s)' % (name, ', '.join(self.expr(env, depth - 1) for _ in range(n)))
        return self.atom(env)

    def arm(self, env, depth):
        """if-arms are atoms or calls: an arm starting with `(` is read as a call of the condition, and braces inside a
        parenthesised tuple hit parser corner cases that are outside the properties checked here"""
        rng = self.rng
        r = rng.random()
        if depth > 0 and r < 0.3:
            return '%s(%s)' % (rng.choice(UNARY_FNS), self.expr(env, depth - 1))
        if depth > 0 and r < 0.45:
            return '%s(%s, %s)' % (rng.choice(BIN_FNS), self.expr(env, depth - 1), self.expr(env, depth - 1))
        if r < 0.6 and self.fns_pure:
            name, n = rng.choice(self.fns_pure)
            return '%s(%s)' % (name, ', '.join(self.expr(env, max(depth - 1, 0)) for _ in range(n)))
        a = self.atom(env)
        # (a projection `t.0` directly before `else` is mis-tokenised by the parser: also avoided)
        return a if not a.startswith('(') and '.' not in a.replace('.0', '', 0)[-2:] and not a[-2:] in ('.0', '.1') else self.lit()

    # ---- helper functions ---------------------------------------------------------------------------------
    fns_pure = ()

    def new_name(self, p):
        self.nfn += 1
        return '%s%d' % (p, self.nfn)

    def pure_fn(self):
        rng = self.rng
        name = self.new_name('f')
        n = rng.randint(1, 2)
        params = ['p%d' % i for i in range(n)]
        kind = rng.random()
        if kind < 0.25 and self.branch_budget > 0:
            self.branch_budget -= 1
            arms = ['    %d => %s' % (i, self.expr(params, 1)) for i in range(rng.randint(1, 3))]
            body = '  match %s {\n%s\n    _ => %s\n  }' % (params[0], '\n'.join(arms), self.expr(params, 1))
        else:
            body = '  ' + self.expr(params, 2)
        self.fns.append('fn %s(%s){\n%s\n}\n' % (name, ', '.join('%s:float' % p for p in params), body))
        self.fns_pure = tuple(self.fns_pure) + ((name, n),)
        return name, n

    def stateful_fn(self):
        """-> (name, nparams, returns_tuple)"""
        rng = self.rng
        name = self.new_name('s')
        k = rng.choice(['cnt', 'lp', 'mem', 'mem2', 'delay', 'delayt', 'nest', 'selftuple', 'memexpr'])
        c = self.lit()
        if k == 'cnt':
            src = 'fn %s(x:float){\n  self + x * %s\n}\n' % (name, c)
        elif k == 'lp':
            src = 'fn %s(x:float){\n  x * %s + self * 0.5\n}\n' % (name, c)
        elif k == 'mem':
            src = 'fn %s(x:float){\n  mem(x) * %s\n}\n' % (name, c)
        elif k == 'mem2':
            src = 'fn %s(x:float){\n  mem(mem(x)) + mem(x * %s)\n}\n' % (name, c)
        elif k == 'delay':
            n = rng.choice([2, 3, 4, 5])
            src = 'fn %s(x:float){\n  delay(%d.0, x * %s, %d.0)\n}\n' % (name, n, c, rng.randint(0, n - 1))
        elif k == 'delayt':
            n = rng.choice([3, 4, 6])
            src = 'fn %s(x:float, t:float){\n  delay(%d.0, x, t)\n}\n' % (name, n)
            self.fns.append(src)
            return name, 2, False
        elif k == 'nest':
            inner = self.new_name('s')
            src = 'fn %s(x:float){\n  self + x\n}\nfn %s(x:float){\n  %s(x * %s) + mem(x)\n}\n' % (inner, name, inner, c)
        elif k == 'selftuple':
            src = 'fn %s(x:float)->(float,float){\n  let (p, q) = self\n  (q + x, p * %s)\n}\n' % (name, c)
            self.fns.append(src)
            return name, 1, True
        else:
            src = 'fn %s(x:float){\n  mem(%s)\n}\n' % (name, self.expr(['x'], 2))
        self.fns.append(src)
        return name, 1, False

    # ---- dsp ----------------------------------------------------------------------------------------------
    def program(self):
        rng = self.rng
        tuple_in = rng.random() < 0.4
        env = ['a.0', 'a.1'] if tuple_in else ['a']
        for _ in range(rng.randint(0, 2)):
            self.pure_fn()
        lines = []
        nlet = 0
        # straight-line prefix: stateful calls, tuples, arrays, closures
        for _ in range(rng.randint(1, 4)):
            r = rng.random()
            nlet += 1
            v = 'v%d' % nlet
            if r < 0.40 and self.stateful_budget > 0:
                self.stateful_budget -= 1
                name, n, tup = self.stateful_fn()
                args = ', '.join(self.expr(env, 1) for _ in range(n))
                if tup:
                    lines.append('  let (%sa, %sb) = %s(%s);' % (v, v, name, args))
                    env = env + [v + 'a', v + 'b']
                else:
                    lines.append('  let %s = %s(%s);' % (v, name, args))
                    env = env + [v]
            elif r < 0.55:
                lines.append('  let %s = (%s, %s);' % (v, self.expr(env, 1), self.expr(env, 1)))
                env = env + [v + '.0', v + '.1']
            elif r < 0.70:
                n = rng.randint(2, 4)
                if rng.random() < 0.4:
                    lines.append('  let %s = [%s]' % (v, ', '.join('(%s, %s)' % (self.expr(env, 0), self.expr(env, 0)) for _ in range(n))) + ';')
                    lines.append('  let (%sx, %sy) = %s[%s];' % (v, v, v, self.expr(env, 1)))
                    env = env + [v + 'x', v + 'y']
                else:
                    lines.append('  let %s = [%s];' % (v, ', '.join(self.expr(env, 1) for _ in range(n))))
                    env = env + ['%s[%s]' % (v, self.expr(env, 1))]
            else:
                lines.append('  let %s = %s;' % (v, self.expr(env, 2)))
                env = env + [v]
        tuple_out = rng.random() < 0.25
        if tuple_out:
            ret = '(%s, %s)' % (self.expr(env, 2), self.expr(env, 2))
            rty = '(float,float)'
        else:
            ret = self.expr(env, 3)
            rty = 'float'
        src = ''.join(self.fns)
        src += 'fn dsp(a:%s)->%s{\n%s\n  %s\n}\n' % ('(float,float)' if tuple_in else 'float', rty, '\n'.join(lines), ret)
        return src


def main():
    import json
    import subprocess
    n = int(sys.argv[1]) if len(sys.argv) > 1 else 80
    mmdump = os.path.join(os.path.dirname(D), '.cache', 'target-mmdump', 'release', 'mmdump')
    for old in os.listdir(D):
        if old.startswith('gn_'):
            os.remove(os.path.join(D, old))
    rejected = []
    kept = 0
    for i in range(n):
        rng = random.Random(1000003 * (i + 1))
        src = Gen(rng).program()
        p = os.path.join(D, 'gn_%03d.mmm' % i)
        with open(p, 'w') as f:
            f.write(src)
        # keep only programs that all three backends accept on the tree the corpus was generated from (parser corner cases such
        # as `t.0 else` or `((x.0 - y) + (..)), ..` are outside the properties checked with this corpus); the others are listed
        if os.path.exists(mmdump):
            r = subprocess.run([mmdump, 'compile', p], capture_output=True, text=True)
            try:
                d = json.loads(r.stdout)
                okall = all(d[k]['ok'] and not d[k].get('panic') for k in ('bytecode', 'wasm', 'rust'))
                why = next((str(d[k].get('panic') or (d[k]['errors'] or [''])[0])[:160] for k in ('bytecode', 'wasm', 'rust') if not d[k]['ok'] or d[k].get('panic')), '')
            except Exception as e:
                okall, why = False, 'mmdump: %r' % e
            if not okall:
                rejected.append('gn_%03d: %s' % (i, why.replace('\n', ' ')))
                os.rename(p, p[:-4] + '.rejected')
                continue
        kept += 1
    with open(os.path.join(D, 'gn_rejected.txt'), 'w') as f:
        f.write('\n'.join(rejected) + '\n')
    print(n, 'generated programs,', kept, 'kept,', len(rejected), 'rejected by a backend (corpus/gn_rejected.txt)')


if __name__ == '__main__':
    main()
