#!/usr/bin/env python3
"""Record the model gaps every check has on the UNCHANGED tree (see checks/common.py coverage_gate).

usage: tools/update_coverage_baseline.py [--tier quick] [--seeds 0,1,2] [--checks C01,C02,...]
Runs each check with the gate switched off, reads evidence/<id>.json -> coverage.model_gap_keys and stores the union per
(check, tier) in /verif/coverage-baseline.json.  Run it only on a tree on which every check passes; a gap that appears later
(after a change to /repo) is then reported as COVERAGE-LOSS instead of silently shrinking what the check decides.
"""
import argparse
import json
import os
import subprocess
import sys

VERIF = os.path.dirname(os.path.dirname(os.path.abspath(__file__)))


def main():
    ap = argparse.ArgumentParser()
    ap.add_argument('--tier', default='quick')
    ap.add_argument('--seeds', default='0,1,2')
    ap.add_argument('--checks', default='')
    a = ap.parse_args()
    man = json.load(open(os.path.join(VERIF, 'MANIFEST.json')))
    pids = [c['property_id'] for c in man['checks']]
    if a.checks:
        pids = [p for p in pids if p in a.checks.split(',')]
    path = os.path.join(VERIF, 'coverage-baseline.json')
    base = json.load(open(path)) if os.path.exists(path) else {}
    bad = []
    for seed in [int(x) for x in a.seeds.split(',')]:
        for pid in pids:
            env = dict(os.environ, VERIF_SEED=str(seed), VERIF_NO_COVERAGE_GATE='1')
            r = subprocess.run([os.path.join(VERIF, 'check'), pid, '--tier', a.tier], cwd=VERIF, env=env, capture_output=True, text=True)
            vio = [l for l in r.stdout.split('\n') if l.startswith('VIOLATION')]
            print('%s seed=%d rc=%d violations=%d' % (pid, seed, r.returncode, len(vio)), flush=True)
            if r.returncode != 0 or vio:
                bad.append((pid, seed, r.returncode, vio[:2], r.stderr[-400:]))
                continue
            ev = json.load(open(os.path.join(VERIF, 'evidence', '%s.json' % pid)))
            keys = ev['coverage'].get('model_gap_keys') or []
            cur = set(base.setdefault(pid, {}).setdefault(a.tier, []))
            cur.update(keys)
            base[pid][a.tier] = sorted(cur)
            with open(path, 'w') as f:
                json.dump(base, f, indent=1, sort_keys=True)
    for b in bad:
        print('NOT RECORDED (check did not pass):', b)
    return 1 if bad else 0


if __name__ == '__main__':
    sys.exit(main())
