#!/bin/bash
# try_scratch.sh <seed id> <check ids...> : run quick checks against the scratch worktree /tmp/seed/<id> (patch applied there),
# with a build cache of its own under /tmp/seed/<id>/.verif-cache; /repo and /verif/evidence are not touched.
sid=$1; shift
wt=/tmp/seed/$sid
[ -d "$wt" ] || { echo "no worktree $wt"; exit 3; }
cd /verif
mkdir -p /tmp/seed/try
for c in "$@"; do
  VERIF_REPO=$wt VERIF_CACHE=$wt/.verif-cache ./check $c --tier ${TIER:-quick} > /tmp/seed/try/$sid.$c.log 2>&1
  echo "$sid $c rc=$? violations=$(grep -c '^VIOLATION' /tmp/seed/try/$sid.$c.log) loss=$(grep -c '^COVERAGE-LOSS' /tmp/seed/try/$sid.$c.log)"
done
