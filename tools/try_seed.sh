#!/bin/bash
# try_seed.sh <seed id> <check ids...> : apply the seeded patch to /repo, run the quick checks, restore /repo
sid=$1; shift
patch=/tmp/seed/$sid/SEED/patch.diff
[ -f "$patch" ] || patch=/verif/seeded/$sid/patch.diff
cd /verif
# trial runs on a seeded tree must never overwrite the committed evidence
export VERIF_EVIDENCE_DIR=/tmp/seed/try/evidence
mkdir -p $VERIF_EVIDENCE_DIR
git -C /repo status --short | grep -q . && { echo "repo dirty"; exit 3; }
git -C /repo apply "$patch" || exit 3
for c in "$@"; do
  ./check $c --tier quick > /tmp/seed/try/$sid.$c.log 2>&1
  echo "$sid $c rc=$? violations=$(grep -c '^VIOLATION' /tmp/seed/try/$sid.$c.log) loss=$(grep -c '^COVERAGE-LOSS' /tmp/seed/try/$sid.$c.log)"
done
git -C /repo checkout -- .
# the helper binaries were rebuilt from the seeded tree by the checks: rebuild them from the restored tree
python3-vt -c "import sys; sys.path.insert(0,'/verif'); from checks import common; common.build_mmdump(); common.build_mmdump(debug=True)"
