"""A small abstract syntax for the core language subset used by the C02 corpus, its renderer to mimium source, and an
independent REFERENCE EVALUATOR written against the text of property C02 (call-by-value, one zero-initialised state cell
per textual call site of self / mem / delay per call path, `now` counting from 0).  The evaluator produces SMT terms
(z3 FP) so that the VM's output can be compared with it for ALL input values.

Expressions (python tuples):
  ('num', x) ('var', n) ('bin', op, a, b) ('neg', a) ('call', f, [args]) ('if', c, a, b) ('let', n, e, body)
  ('lettuple', [n..], e, body) ('tuple', [e..]) ('proj', e, i) ('self',) ('mem', e) ('delay', n, e, t) ('now',)
  ('samplerate',) ('intr', name, [args]) ('lambda', [params], body) ('assign', n, e, body) ('record', [(k, e)..]) ('field', e, k)
  ('pipe', e, f)
Program: dict(fns=[(name, [(param, type_or_None)], body)], globals=[(name, expr)], dsp_params=[(name, type)])
"""
import z3
from mirsym import smt as S
from mirsym.smt import f2b

BINOPS = {'+': 'Add', '-': 'Sub', '*': 'Mul', '/': 'Div', '%': 'Rem', '^': 'pow',
          '==': 'Eq', '!=': 'Ne', '<': 'Lt', '<=': 'Le', '>': 'Gt', '>=': 'Ge', '&&': 'and', '||': 'or'}


# ---------------------------------------------------------------------------------------------------
# renderer
# ---------------------------------------------------------------------------------------------------
def fnum(x):
    s = repr(float(x))
    return s


def render_expr(e, ind=1):
    k = e[0]
    pad = '  ' * ind
    if k == 'num':
        return fnum(e[1])
    if k == 'var':
        return e[1]
    if k == 'bin':
        return '(%s %s %s)' % (render_expr(e[2], ind), e[1], render_expr(e[3], ind))
    if k == 'neg':
        return '(-%s)' % render_expr(e[1], ind)
    if k == 'call':
        return '%s(%s)' % (e[1], ', '.join(render_expr(a, ind) for a in e[2]))
    if k == 'callv':
        return '%s(%s)' % (render_expr(e[1], ind), ', '.join(render_expr(a, ind) for a in e[2]))
    if k == 'if':
        return 'if (%s) %s else %s' % (render_expr(e[1], ind), render_block(e[2], ind, True), render_block(e[3], ind, True))
    if k == 'let':
        return 'let %s = %s\n%s%s' % (e[1], render_expr(e[2], ind), pad, render_expr(e[3], ind))
    if k == 'lettuple':
        return 'let %s = %s\n%s%s' % (render_pat(e[1]), render_expr(e[2], ind), pad, render_expr(e[3], ind))
    if k == 'assign':
        return '%s = %s\n%s%s' % (e[1], render_expr(e[2], ind), pad, render_expr(e[3], ind))
    if k == 'tuple':
        return '(%s)' % ', '.join(render_expr(a, ind) for a in e[1])
    if k == 'proj':
        return '%s.%d' % (render_expr(e[1], ind), e[2])
    if k == 'self':
        return 'self'
    if k == 'mem':
        return 'mem(%s)' % render_expr(e[1], ind)
    if k == 'delay':
        return 'delay(%s, %s, %s)' % (fnum(e[1]), render_expr(e[2], ind), render_expr(e[3], ind))
    if k == 'now':
        return 'now'
    if k == 'samplerate':
        return 'samplerate'
    if k == 'intr':
        return '%s(%s)' % (e[1], ', '.join(render_expr(a, ind) for a in e[2]))
    if k == 'lambda':
        return '|%s| %s' % (', '.join(n if isinstance(n, str) else '%s:%s' % tuple(n) for n in e[1]) if e[1] else ' ', render_block(e[2], ind, force=any(not isinstance(n, str) for n in e[1])))
    if k == 'record':
        return '{%s}' % ', '.join('%s = %s' % (n, render_expr(v, ind)) for n, v in e[1])
    if k == 'field':
        return '%s.%s' % (render_expr(e[1], ind), e[2])
    if k == 'callrec':
        if len(e) > 3 and e[3] == 'dots':
            return '{%s, ..} |> %s' % (', '.join('%s = %s' % (n, render_expr(v, ind)) for n, v in e[2]), e[1])
        return '%s({%s})' % (e[1], ', '.join('%s = %s' % (n, render_expr(v, ind)) for n, v in e[2]))
    if k == 'pipe':
        return '(%s |> %s)' % (render_expr(e[1], ind), e[2])
    if k == 'block':
        return render_block(e[1], ind, True)
    raise ValueError(k)


def render_pat(names):
    """tuple pattern; a nested list is a nested tuple pattern"""
    return '(%s)' % ', '.join(render_pat(n) if isinstance(n, (list, tuple)) else n for n in names)


def bind_pat(env, names, v):
    for n, x in zip(names, v):
        if isinstance(n, (list, tuple)):
            bind_pat(env, n, x)
        else:
            env[n] = Cell(x)


def render_block(e, ind, force=False):
    if force or e[0] in ('let', 'lettuple', 'assign', 'if'):
        return '{\n%s%s\n%s}' % ('  ' * (ind + 1), render_expr(e, ind + 1), '  ' * ind)
    return render_expr(e, ind)


def render_program(p):
    out = []
    glob = ['let %s = %s\n' % (n, render_expr(e, 0)) for n, e in p.get('globals', [])]
    if not p.get('globals_last'):
        out += glob
    for name, params, body in p['fns']:
        if name == 'dsp' and p.get('globals_last'):
            out += glob          # globals that call functions are written after the functions they use, in front of dsp
        ps = ', '.join((('%s:%s' % (q[0], q[1]) if q[1] and len(q) < 3 else q[0]) + (' = %s' % render_expr(q[2], 0) if len(q) > 2 else '')) for q in params)
        ret = ''
        btxt = render_expr(body, 1)
        if p.get('safe_bodies') and btxt.startswith('('):
            # a body that starts with `(` right after the parameter list / a preceding item trips parser corner cases of the front end
            # (outside the properties checked here): bind it first
            btxt = 'let res_ = %s\n  res_' % btxt
        out.append('fn %s(%s)%s{\n  %s\n}\n' % (name, ps, ret, btxt))
    return ''.join(out)


# ---------------------------------------------------------------------------------------------------
# reference evaluator
# ---------------------------------------------------------------------------------------------------
class RefError(Exception):
    pass


class Closure(object):
    def __init__(self, params, body, env, site):
        self.params, self.body, self.env, self.site = params, body, env, site


class Cell(object):
    """a mutable variable cell (for closures that assign captured variables)"""
    __slots__ = ('v',)

    def __init__(self, v):
        self.v = v


class RefEval(object):
    """values: z3 FP terms / python floats-as-bits are avoided: everything is a z3 FP term or a python tuple/dict of them"""

    def __init__(self, smt, prog, fmod, samplerate=48000.0):
        self.smt = smt
        self.prog = prog
        self.fns = {n: (ps, b) for n, ps, b in prog['fns']}
        self.state = {}         # call path key -> value carried to the next sample
        self.next_state = {}
        self.fmod = fmod
        self.samplerate = samplerate
        self.site_ids = {}
        self.assumptions = []

    def fp(self, x):
        return self.smt.fpval(f2b(float(x)))

    def site(self, e):
        return id(e)

    def zero_shape(self, n):
        """self_arity: 1 = scalar, k = flat k-tuple, a list = nested tuple shape, e.g. [1, [1, 1]]"""
        if isinstance(n, (list, tuple)):
            return tuple(self.zero_shape(x) for x in n)
        return self.fp(0.0) if n == 1 else tuple(self.fp(0.0) for _ in range(n))

    def zero_like(self, v):
        if isinstance(v, tuple):
            return tuple(self.zero_like(x) for x in v)
        return self.fp(0.0)

    def b2f(self, c):
        return z3.If(c, self.fp(1.0), self.fp(0.0))

    def truth(self, v):
        # the language documents no truthiness for arbitrary numbers; C02 programs only branch on comparison results,
        # for which every reading ( > 0, != 0 ) agrees
        return z3.fpGT(v, self.fp(0.0))

    def run_globals(self):
        env = {}
        self.genv = env          # a global initialiser may call functions, which see the globals defined so far
        for n, e in self.prog.get('globals', []):
            env[n] = Cell(self.eval(e, env, ('global', n), None))
        self.genv = env

    def step(self, inputs, now):
        """one dsp call.  inputs: list of FP terms"""
        self.now = now
        self.next_state = {}
        ps, body = self.fns['dsp']
        env = dict(self.genv)
        if ps:
            if len(ps) == 1 and len(inputs) != 1:
                env[ps[0][0]] = Cell(tuple(inputs))
            else:
                for q, v in zip(ps, inputs):
                    env[q[0]] = Cell(v)
        out = self.call_body('dsp', body, env, ('dsp',))
        # cells not visited this sample keep their value
        for k, v in self.state.items():
            self.next_state.setdefault(k, v)
        self.state = self.next_state
        return out

    def call_body(self, fname, body, env, path):
        frame = dict(self_path=path, fname=fname)
        r = self.eval(body, env, path, frame)
        if frame.get('uses_self'):
            self.next_state[(path, 'self')] = r
        return r

    def eval(self, e, env, path, frame):
        k = e[0]
        smt = self.smt
        if k == 'num':
            return self.fp(e[1])
        if k == 'var':
            if e[1] in env:
                return env[e[1]].v
            if e[1] in self.fns:
                ps, b = self.fns[e[1]]
                return Closure([p for p, _ in ps], b, dict(self.genv), ('fn', e[1]))
            raise RefError('unbound %s' % e[1])
        if k == 'bin':
            a = self.eval(e[2], env, path + (('l', self.site(e)),), frame)
            b = self.eval(e[3], env, path + (('r', self.site(e)),), frame)
            return self.binop(e[1], a, b)
        if k == 'neg':
            return z3.fpNeg(self.eval(e[1], env, path, frame))
        if k == 'tuple':
            return tuple(self.eval(x, env, path + ((i, self.site(e)),), frame) for i, x in enumerate(e[1]))
        if k == 'proj':
            return self.eval(e[1], env, path, frame)[e[2]]
        if k == 'record':
            return dict((n, self.eval(v, env, path + ((n, self.site(e)),), frame)) for n, v in e[1])
        if k == 'field':
            return self.eval(e[1], env, path, frame)[e[2]]
        if k == 'let':
            v = self.eval(e[2], env, path + (('let', self.site(e)),), frame)
            env2 = dict(env)
            env2[e[1]] = Cell(v)
            return self.eval(e[3], env2, path, frame)
        if k == 'lettuple':
            v = self.eval(e[2], env, path + (('let', self.site(e)),), frame)
            env2 = dict(env)
            bind_pat(env2, e[1], v)
            return self.eval(e[3], env2, path, frame)
        if k == 'assign':
            v = self.eval(e[2], env, path + (('asg', self.site(e)),), frame)
            env[e[1]].v = v
            return self.eval(e[3], env, path, frame)
        if k == 'if':
            c = self.eval(e[1], env, path + (('c', self.site(e)),), frame)
            # both arms own their call sites; only the taken arm's state advances.  Evaluate both symbolically and merge.
            cond = self.truth(c)
            saved_next = self.next_state
            self.next_state = dict(saved_next)
            a = self.eval(e[2], env, path + (('t', self.site(e)),), frame)
            ns_a = self.next_state
            self.next_state = dict(saved_next)
            b = self.eval(e[3], env, path + (('e', self.site(e)),), frame)
            ns_b = self.next_state
            merged = dict(saved_next)
            for key in set(ns_a) | set(ns_b):
                old = self.state.get(key)
                va = ns_a.get(key, old)
                vb = ns_b.get(key, old)
                if va is None:
                    va = self.zero_like(vb)
                if vb is None:
                    vb = self.zero_like(va)
                merged[key] = self.ite(cond, va, vb)
            self.next_state = merged
            return self.ite(cond, a, b)
        if k == 'self':
            frame['uses_self'] = True
            key = (frame['self_path'], 'self')
            v = self.state.get(key)
            if v is None:
                n = self.prog.get('self_arity', {}).get(frame['fname'], 1)
                v = self.zero_shape(n)
            return v
        if k == 'mem':
            x = self.eval(e[1], env, path + (('m', self.site(e)),), frame)
            key = (path, 'mem', self.site(e))
            old = self.state.get(key, self.fp(0.0))
            self.next_state[key] = x
            return old
        if k == 'delay':
            n = int(e[1])
            x = self.eval(e[2], env, path + (('dx', self.site(e)),), frame)
            t = self.eval(e[3], env, path + (('dt', self.site(e)),), frame)
            key = (path, 'delay', self.site(e))
            hist = self.state.get(key, tuple(self.fp(0.0) for _ in range(n)))   # hist[j] = x from j+1 samples earlier
            # floor(t) samples earlier for 1 <= t <= n-1 (outside that range the property says nothing: assumed away)
            self.assumptions.append(z3.And(z3.fpGEQ(t, self.fp(1.0)), z3.fpLEQ(t, self.fp(float(n - 1)))))
            res = hist[n - 2] if n >= 2 else self.fp(0.0)
            for j in range(n - 2, 0, -1):
                res = z3.If(z3.fpLT(t, self.fp(float(j + 1))), hist[j - 1], res)
            self.next_state[key] = (x,) + tuple(hist[:-1])
            return res
        if k == 'now':
            return self.now
        if k == 'samplerate':
            return self.fp(self.samplerate)
        if k == 'intr':
            args = [self.eval(a, env, path + ((i, self.site(e)),), frame) for i, a in enumerate(e[2])]
            return self.intrinsic(e[1], args)
        if k == 'lambda':
            return Closure([n if isinstance(n, str) else n[0] for n in e[1]], e[2], env, self.site(e))
        if k == 'pipe':
            return self.eval(('call', e[2], [e[1]]), env, path, frame)
        if k == 'block':
            # `{ ... }` in expression position: bindings made inside end with the block (`let` already evaluates its body in a copy
            # of the environment, so nothing leaks); assignments to OUTER variables go through their cells and stay
            return self.eval(e[1], env, path + (('blk', self.site(e)),), frame)
        if k == 'call':
            args = [self.eval(a, env, path + (('a%d' % i, self.site(e)),), frame) for i, a in enumerate(e[2])]
            cpath = path + (('call', self.site(e)),)
            if e[1] in env and isinstance(env[e[1]].v, Closure):
                return self.apply(env[e[1]].v, args, cpath)
            if e[1] in self.fns:
                ps, body = self.fns[e[1]]
                cenv = dict(self.genv)
                for q, v in zip(ps, args):
                    cenv[q[0]] = Cell(v)
                return self.call_body(e[1], body, cenv, cpath)
            raise RefError('unknown function %s' % e[1])
        if k == 'callrec':
            # `{k = e, ..} |> f`: parameters are bound BY NAME, the missing ones take their declared default
            given = dict((n, self.eval(v, env, path + (('r_' + n, self.site(e)),), frame)) for n, v in e[2])
            ps, body = self.fns[e[1]]
            cenv = dict(self.genv)
            for q in ps:
                if q[0] in given:
                    cenv[q[0]] = Cell(given[q[0]])
                elif len(q) > 2:
                    cenv[q[0]] = Cell(self.eval(q[2], self.genv, path + (('d_' + q[0], self.site(e)),), frame))
                else:
                    raise RefError('missing argument %s' % q[0])
            return self.call_body(e[1], body, cenv, path + (('call', self.site(e)),))
        if k == 'callv':
            f = self.eval(e[1], env, path + (('f', self.site(e)),), frame)
            args = [self.eval(a, env, path + (('a%d' % i, self.site(e)),), frame) for i, a in enumerate(e[2])]
            return self.apply(f, args, path + (('call', self.site(e)),))
        raise RefError('expr %s' % k)

    def apply(self, clo, args, cpath):
        cenv = dict(clo.env)
        for n, v in zip(clo.params, args):
            cenv[n] = Cell(v)
        return self.call_body('<closure>', clo.body, cenv, cpath)

    def ite(self, c, a, b):
        if isinstance(a, tuple):
            return tuple(self.ite(c, x, y) for x, y in zip(a, b))
        if isinstance(a, dict):
            return dict((k, self.ite(c, a[k], b[k])) for k in a)
        if isinstance(a, Closure) or isinstance(b, Closure):
            raise RefError('closure-valued if')
        return z3.If(c, a, b)

    def binop(self, op, a, b):
        if isinstance(a, tuple) or isinstance(b, tuple):
            raise RefError('tuple arithmetic')
        if op == '+':
            return z3.fpAdd(S.RNE, a, b)
        if op == '-':
            return z3.fpSub(S.RNE, a, b)
        if op == '*':
            return z3.fpMul(S.RNE, a, b)
        if op == '/':
            return z3.fpDiv(S.RNE, a, b)
        if op == '%':
            return self.fmod(a, b)
        if op == '^':
            return self.smt.ufun('f64_powf', 2)(a, b)
        if op == '==':
            return self.b2f(z3.fpEQ(a, b))
        if op == '!=':
            return self.b2f(z3.Not(z3.fpEQ(a, b)))
        if op == '<':
            return self.b2f(z3.fpLT(a, b))
        if op == '<=':
            return self.b2f(z3.fpLEQ(a, b))
        if op == '>':
            return self.b2f(z3.fpGT(a, b))
        if op == '>=':
            return self.b2f(z3.fpGEQ(a, b))
        if op == '&&':
            return self.b2f(z3.And(self.truth(a), self.truth(b)))
        if op == '||':
            return self.b2f(z3.Or(self.truth(a), self.truth(b)))
        raise RefError('op %s' % op)

    def intrinsic(self, name, args):
        x = args[0]
        if name == 'sqrt':
            return z3.fpSqrt(S.RNE, x)
        if name == 'abs':
            return z3.fpAbs(x)
        if name == 'floor':
            return z3.fpRoundToIntegral(z3.RTN(), x)
        if name == 'ceil':
            return z3.fpRoundToIntegral(z3.RTP(), x)
        if name == 'round':
            return z3.fpRoundToIntegral(z3.RNA(), x)
        if name in ('sin', 'cos', 'tan', 'asin', 'acos', 'atan', 'sinh', 'cosh', 'tanh'):
            return self.smt.ufun('f64_' + name, 1)(x)
        if name == 'log':
            return self.smt.ufun('f64_ln', 1)(x)
        if name == 'atan2':
            return self.smt.ufun('f64_atan2', 2)(x, args[1])
        if name == 'pow':
            return self.smt.ufun('f64_powf', 2)(x, args[1])
        if name in ('min', 'max'):
            y = args[1]
            if name == 'min':
                return z3.If(z3.fpIsNaN(x), y, z3.If(z3.fpIsNaN(y), x, z3.If(z3.fpLT(y, x), y, x)))
            return z3.If(z3.fpIsNaN(x), y, z3.If(z3.fpIsNaN(y), x, z3.If(z3.fpGT(y, x), y, x)))
        raise RefError('intrinsic %s' % name)
