"""Kernel lemma for the bump allocator the WASM backend emits inline (wasmgen `emit_runtime_alloc`), decided on the EMITTED code.

Every run-time `Alloc` / `MakeClosure` of a compiled module is the instruction sequence

    global.get $alloc ; local.set a ; local.get a ; i32.const N ; i32.add ; local.set b ;
    <grow linear memory when b lies beyond the committed pages> ; local.get b ; global.set $alloc

A corpus program never allocates more than a few hundred bytes per tick, so the growth path is dead code for the program-level
analysis.  Here the sequence itself is executed symbolically (this file: the dozen i32 opcodes it uses, WebAssembly core semantics)
with the allocator pointer p and the committed size M (pages) as 32-bit SYMBOLIC values, and z3 decides

    for all p, M with p <= M * 65536 (the pointer starts inside committed memory), M <= 32768, memory.grow succeeding:
        the sequence does not trap, leaves $alloc = p + N, and p + N <= M' * 65536   (M' = pages after the sequence)

i.e. the cell it hands out is backed by memory.  A model is replayed on the real runtimes with a generated program that allocates
past the initial memory inside one tick (naive tree recursion), VM against WASM.
"""
import re
import z3

W = 32


class LemmaError(Exception):
    pass


def extract_sequences(wat):
    """-> {(N, text)}: distinct allocation sequences of a module, as instruction lists"""
    out = {}
    lines = [l.strip() for l in wat.split('\n')]
    i = 0
    n = len(lines)
    while i < n:
        if lines[i] == 'global.get 0' and i + 5 < n and lines[i + 1].startswith('local.set') and lines[i + 2].startswith('local.get') \
                and lines[i + 3].startswith('i32.const') and lines[i + 4] == 'i32.add' and lines[i + 5].startswith('local.set'):
            b = lines[i + 5].split()[1]
            j = i + 6
            depth = 0
            seq = lines[i:i + 6]
            ok = False
            while j < n and j < i + 80:
                l = lines[j]
                seq.append(l)
                if l.startswith('if'):
                    depth += 1
                elif l == 'end':
                    depth -= 1
                elif depth == 0 and l == 'global.set 0' and lines[j - 1] == 'local.get %s' % b:
                    ok = True
                    break
                j += 1
            if ok:
                size = int(lines[i + 3].split()[1])
                out[(size, '\n'.join(seq))] = seq
                i = j
        i += 1
    return out


def run_sequence(seq, p, M):
    """symbolic execution of one sequence; returns (trap_cond, final_alloc_ptr, final_pages)"""
    bv = lambda v: z3.BitVecVal(v & 0xffffffff, W)
    state = dict(glob=p, pages=M, locals={}, trap=z3.BoolVal(False))

    def block(k, cond):
        """execute from index k until the matching `end` (or the end of the list) under path condition `cond`"""
        stack = []
        while k < len(seq):
            ins = seq[k].split(';;')[0].strip()
            op = ins.split()
            if not op:
                k += 1
                continue
            o = op[0]
            if o == 'global.get':
                stack.append(state['glob'])
            elif o == 'global.set':
                state['glob'] = z3.If(cond, stack.pop(), state['glob'])
            elif o == 'local.get':
                stack.append(state['locals'].get(op[1], bv(0)))
            elif o == 'local.set':
                v = stack.pop()
                state['locals'][op[1]] = z3.If(cond, v, state['locals'].get(op[1], bv(0)))
            elif o == 'local.tee':
                v = stack[-1]
                state['locals'][op[1]] = z3.If(cond, v, state['locals'].get(op[1], bv(0)))
            elif o == 'i32.const':
                stack.append(bv(int(op[1])))
            elif o in ('i32.add', 'i32.sub', 'i32.shl', 'i32.shr_u', 'i32.and', 'i32.or', 'i32.mul'):
                b_, a_ = stack.pop(), stack.pop()
                stack.append({'i32.add': a_ + b_, 'i32.sub': a_ - b_, 'i32.shl': a_ << (b_ & 31), 'i32.shr_u': z3.LShR(a_, b_ & 31),
                              'i32.and': a_ & b_, 'i32.or': a_ | b_, 'i32.mul': a_ * b_}[o])
            elif o in ('i32.gt_u', 'i32.ge_u', 'i32.lt_u', 'i32.le_u', 'i32.eq', 'i32.ne', 'i32.gt_s', 'i32.lt_s'):
                b_, a_ = stack.pop(), stack.pop()
                c = {'i32.gt_u': z3.UGT(a_, b_), 'i32.ge_u': z3.UGE(a_, b_), 'i32.lt_u': z3.ULT(a_, b_), 'i32.le_u': z3.ULE(a_, b_),
                     'i32.eq': a_ == b_, 'i32.ne': a_ != b_, 'i32.gt_s': a_ > b_, 'i32.lt_s': a_ < b_}[o]
                stack.append(z3.If(c, bv(1), bv(0)))
            elif o == 'i32.eqz':
                a_ = stack.pop()
                stack.append(z3.If(a_ == 0, bv(1), bv(0)))
            elif o == 'memory.size':
                stack.append(state['pages'])
            elif o == 'memory.grow':
                d = stack.pop()
                old = state['pages']
                # growth succeeds while the result stays within 65536 pages (the module's maximum is not smaller in wasmgen's output)
                okc = z3.ULE(z3.ZeroExt(1, old) + z3.ZeroExt(1, d), z3.BitVecVal(65536, W + 1))
                state['pages'] = z3.If(z3.And(cond, okc), old + d, old)
                stack.append(z3.If(okc, old, bv(-1)))
            elif o == 'unreachable':
                state['trap'] = z3.Or(state['trap'], cond)
            elif o == 'if':
                c = stack.pop()
                k = block(k + 1, z3.And(cond, c != 0))
                continue
            elif o == 'else':
                raise LemmaError('else in an allocation sequence')
            elif o == 'end':
                return k + 1
            else:
                raise LemmaError('opcode %s in an allocation sequence' % o)
            k += 1
        return k
    block(0, z3.BoolVal(True))
    return state['trap'], state['glob'], state['pages']


def decide(seq, size, timeout_ms=20000):
    """-> ('holds' | 'fails' | 'unknown', model dict | None)"""
    p, M = z3.BitVec('alloc_ptr', W), z3.BitVec('pages', W)
    trap, q, M2 = run_sequence(seq, p, M)
    z64 = lambda v: z3.ZeroExt(32, v)
    pre = z3.And(z3.ULE(M, z3.BitVecVal(32768, W)), z3.ULE(z64(p), z64(M) * 65536), z3.UGE(M, z3.BitVecVal(1, W)))
    post = z3.And(z3.Not(trap), q == p + z3.BitVecVal(size, W), z3.ULE(z64(p) + size, z64(M2) * 65536))
    s = z3.Solver()
    s.set('timeout', timeout_ms)
    s.add(pre, z3.Not(post))
    r = s.check()
    if r == z3.unsat:
        return 'holds', None
    if r == z3.sat:
        m = s.model()
        return 'fails', dict(alloc_ptr=m.eval(p, model_completion=True).as_long(), pages=m.eval(M, model_completion=True).as_long(),
                             pages_after=m.eval(M2, model_completion=True).as_long(), new_ptr=m.eval(q, model_completion=True).as_long(), size=size)
    return 'unknown', None


HEAVY = '''fn fib(n:float)->float{
  if (n < 2.0) {
    n
  } else {
    let p = (n - 1.0, n - 2.0)
    let q = (fib(p.0), fib(p.1))
    q.0 + q.1
  }
}
fn dsp(a:float)->float{
  fib(27.0) + a
}
'''


def vacuity_witness():
    """the lemma must be falsifiable: a sequence that forgets to grow has to come back 'fails'"""
    seq = ['global.get 0', 'local.set 1', 'local.get 1', 'i32.const 16', 'i32.add', 'local.set 2', 'local.get 2', 'global.set 0']
    return decide(seq, 16)[0] == 'fails'
