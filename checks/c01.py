"""C01 — VM and WASM backends produce identical audio (translation validation, bounded).

corpus programs (concrete) x all dsp input words / state words (symbolic, decided by z3).
"""
import os
import sys
import time

sys.path.insert(0, os.path.dirname(os.path.dirname(os.path.abspath(__file__))))
from checks import common, progcheck
from checks.run_programs import run_jobs

PID = 'C01'


def run(tier, seed):
    t0 = time.time()
    quick = tier == 'quick'
    tbuild = common.build_mmdump()
    mirs = common.prog_mirs()
    groups = ['op', 'st', 'ct', 'cl', 'fi', 'gn', 'ga', 'fx', 'sc']
    files = common.corpus_files(groups, tier, seed)
    steps = 3 if quick else 6
    budget = 60 if quick else 300
    qto = 5000 if quick else 30000
    # 1. encoder self test (concrete differential against the real runtimes)
    st_steps = 4 if quick else 8
    st = run_jobs([('selftest', dict(path=f, mir_paths=mirs, steps=st_steps, seed=seed)) for f in files])
    bad_enc = [r for r in st if r['status'] == 'mismatch']
    load_mismatch = [r for r in st if r['status'] == 'accept_mismatch']
    enc_unsupported = {r['program']: r.get('detail', '') for r in st if r['status'] in ('unsupported', 'error')}
    # 2. symbolic analysis: BMC from the initial state + one inductive step from arbitrary equal state words
    jobs = []
    for f in files:
        name = os.path.basename(f)[:-4]
        if any(r['program'] == name and r['status'] in ('mismatch', 'accept_mismatch') for r in st):
            continue
        jobs.append(('analysis', dict(path=f, mir_paths=mirs, steps=steps, mode='bmc', query_timeout_ms=qto, time_budget_s=budget, seed=seed)))
        jobs.append(('analysis', dict(path=f, mir_paths=mirs, steps=1, mode='inductive', query_timeout_ms=qto, time_budget_s=budget, seed=seed)))
    res = run_jobs(jobs)
    known = common.load_known_findings().get(PID, {})
    violations, known_hits, unconfirmed, inconclusive, skipped = [], [], [], [], []
    replays = 0
    stats = dict(queries=0, sat=0, unsat=0, unknown=0, solver_s=0.0, paths=0, mir_statements=0)
    functions, stubs = {}, {}
    checks = trivial = 0
    accept_mismatch = []
    samples = []
    nprog = set()
    for r in res:
        path = r.get('path') or os.path.join(common.VERIF, 'corpus', r['program'] + '.mmm')
        for k in stats:
            stats[k] += (r.get('solver') or {}).get(k, 0)
        functions.update(r.get('functions') or {})
        for k, v in (r.get('stubs') or {}).items():
            stubs[k] = stubs.get(k, 0) + v
        checks += r.get('checks', 0)
        trivial += r.get('checks_trivial', 0)
        if r['status'] == 'error':
            inconclusive.append('%s[%s]: machinery error: %s' % (r['program'], r.get('mode'), (r.get('notes') or [''])[0][:300]))
            continue
        acc = r.get('accept')
        if acc and (acc['bytecode'] != acc['wasm'] or (acc['bytecode_panic'] is None) != (acc['wasm_panic'] is None)):
            if r.get('mode') == 'bmc':
                accept_mismatch.append((r['program'], acc))
        if r['status'] in ('rejected', 'no_dsp_io', 'inductive_not_applicable'):
            skipped.append('%s: %s' % (r['program'], r['status']))
            continue
        nprog.add(r['program'])
        for u in r.get('unsupported', []):
            inconclusive.append('%s[%s]: unsupported: %s' % (r['program'], r['mode'], u[:200]))
        for u in r.get('inconclusive', []):
            inconclusive.append('%s[%s]: %s' % (r['program'], r['mode'], u[:200]))
        seen_prog = False
        for d in r.get('divergences', []):
            if seen_prog:
                continue
            confirmed, detail = False, {}
            if 'inputs' in d:
                replays += 1
                try:
                    confirmed, detail = progcheck.replay_divergence(path, d, r['steps'])
                except Exception as e:
                    detail = dict(error=repr(e))
            rec = dict(program=r['program'], mode=r['mode'], step=d['step'], what=d['what'], model=dict(inputs=d.get('inputs'), init_state=d.get('init_state'), now0=d.get('now0')), replay=detail)
            if confirmed:
                seen_prog = True
                key = r['program']
                if key in known:
                    known_hits.append((key, rec))
                else:
                    violations.append(rec)
            else:
                unconfirmed.append(rec)
        if len(samples) < 6 and r['mode'] == 'bmc':
            samples.append(dict(program=r['program'], steps=r['steps'], paths=r['paths'], equalities_checked=r.get('checks'),
                                decided_syntactically=r.get('checks_trivial'), divergences=len(r.get('divergences', []))))
    for r in load_mismatch:
        accept_mismatch.append((r['program'], r['detail']))
    for prog, acc in accept_mismatch:
        rec = dict(program=prog, what='accepted by one backend only', accept=acc)
        if prog in known:
            known_hits.append((prog, rec))
        else:
            violations.append(rec)
    # report -------------------------------------------------------------------------------------------
    seen = set()
    for key, rec in known_hits:
        if key not in seen:
            seen.add(key)
            print('KNOWN-FINDING: property=%s %s' % (PID, known[key].split('key=%s' % key, 1)[1].strip() or key))
    vio_paths = []
    for i, v in enumerate(violations):
        p = common.save_replay(PID, i, v)
        vio_paths.append(p)
        print('VIOLATION property=%s replay=%s' % (PID, p))
        print('  %s: %s (step %s, %s)' % (v['program'], v['what'], v.get('step'), (v.get('replay') or {}).get('reason')), file=sys.stderr)
    machinery_bad = len(bad_enc) > 0
    for r in bad_enc:
        common.log('ENCODER MISMATCH (exit 2): %s %s' % (r['program'], r.get('mismatches')))
    # a model that does not reproduce on the real runtimes is a spurious model of the partial fmod/transcendental axioms
    # (uninterpreted functions): inconclusive for that program, never a violation
    for u in unconfirmed[:50]:
        inconclusive.append('%s[%s]: solver model for "%s" did not reproduce on the real runtimes (uninterpreted float function)' % (u['program'], u['mode'], u['what']))
    inconclusive = sorted(set(inconclusive))
    loss, gap_keys = common.coverage_gate(PID, tier, inconclusive)
    for ln in loss:
        print(ln)
        machinery_bad = True
    cov = dict(model_gap_keys=gap_keys, coverage_loss=loss,
        
        programs=len(nprog), disagreements_checked=replays,
        samples=samples or [dict(note='no program analysed')],
        corpus_groups=groups, steps_bmc=steps, inductive_steps=1,
        equalities_checked=checks, equalities_decided_syntactically=trivial,
        solver=stats, functions_encoded=dict(sorted(functions.items())[:400]), n_functions_encoded=len(functions),
        stubs_used=stubs, selftest=dict(programs=len(st), match=sum(1 for r in st if r['status'] == 'match'), mismatch=[r['program'] for r in bad_enc], not_run=enc_unsupported),
        skipped=skipped, inconclusive=inconclusive[:200], n_inconclusive=len(inconclusive),
        confirmed_known=[k for k, _ in known_hits], violations=[dict(program=v['program'], what=v['what']) for v in violations],
        bounds='programs: /verif/corpus groups %s; BMC %d dsp steps from the initial state with all input words symbolic; 1 inductive step from arbitrary equal state words (delay indices < len); per-query timeout %d ms; per-program budget %d s' % (groups, steps, qto, budget),
        build_s=round(tbuild, 1))
    assumptions = [
        'program dimension = finite corpus; data dimension (all 64-bit input patterns, all state words) decided by z3',
        'WebAssembly core-spec semantics of the ~60 opcodes wasmgen emits (wasmsym/exec.py) stand in for wasmtime',
        'std/third-party callees are modelled (stubs_used); f64 %, sin, cos, ... are uninterpreted functions with exact special-case axioms: equality is proved, inequality only reported after replay on the real runtimes',
        'driver protocol (main once; per sample set_input, dsp, read outputs; `now` = shared sample counter) mirrors VmDspRuntime / WasmDspRuntime; plugin trampolines without handlers are stubbed',
        'NaN payload bits are not compared (NaN matches NaN)',
    ]
    common.write_evidence(PID, tier, seed, 'translation_validation', cov, assumptions, time.time() - t0, len(violations))
    if violations:
        return 1
    return 2 if machinery_bad else 0
