"""Runtimes with the scheduler plugin attached, all from the MIR of the real code:
VM   : SimpleScheduler::default / take_audio_worker; the external function `_mimium_schedule_at` is SimpleScheduler::schedule_at, which reads
       its arguments through RuntimeHandle -> the static VM_RUNTIME_VTABLE -> vm_ffi::vm_* ; the worker sits in VmDspRuntime.sys_plugin_workers
       and is run by <VmDspRuntime as DspRuntime>::run_dsp -> SchedulerAudioWorker::on_sample -> vm_execute_closure (execute + drop_closure).
WASM : WasmSchedulerHandle::default; the plugin import `_mimium_schedule_at` is the closure built by into_wasm_plugin_fn_map (reached through the
       stubbed wasmtime trampoline); the handle sits in WasmDspRuntime.sys_plugin_workers and is run by run_dsp -> on_sample ->
       WasmEngine::execute_function("_mimium_exec_closure_void")."""
import os
from mirsym.values import Ref, BoxV
from mirsym.models import RcV
from mirsym.vmdriver import VmRun
from wasmsym.driver import WasmRun


def is_sched(path):
    return os.path.basename(path).startswith(('sc_', 'scheduler'))


def make_vm(it, pj, **kw):
    sched = it.call('<SimpleScheduler as Default>::default', [], None)
    w = it.call('SimpleScheduler::take_audio_worker', [Ref([sched], 0)], None)

    def sched_at(it_, args, fr):
        return it.call('SimpleScheduler::schedule_at', [Ref([sched], 0), args[0]], fr)
    hooks = dict(kw.pop('ext_hooks', None) or {})
    hooks['_mimium_schedule_at'] = sched_at
    vm = VmRun(it, pj, ext_hooks=hooks, **kw)
    vm.workers = [BoxV(w.fields[0])]
    vm.scheduler = sched
    return vm


def make_wasm(it, wj, **kw):
    handle = it.call('<WasmSchedulerHandle as Default>::default', [], None)
    m = it.call('WasmSchedulerHandle::into_wasm_plugin_fn_map', [Ref([handle], 0)], None)
    hs = {}
    for k, v in m.items:
        hs[k.s] = v.cell[0] if isinstance(v, RcV) else v
    wr = WasmRun(it, wj, workers=[BoxV(handle)], **kw)
    wr.host.plugin_handlers = hs
    wr.sched_handle = handle
    return wr
