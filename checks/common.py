"""Shared plumbing of the /verif checks: building the tools from /repo's current tree, MIR dumps, corpus
compilation, evidence files, known findings, replay against the real runtimes."""
import glob
import hashlib
import json
import os
import re
import subprocess
import sys
import time

VERIF = os.path.dirname(os.path.dirname(os.path.abspath(__file__)))
REPO = os.environ.get('VERIF_REPO', '/repo')
# Trial mode (development aid for seeded changes): VERIF_REPO=<scratch worktree> VERIF_CACHE=<dir> runs a check against
# another tree with its own build cache; evidence and replay files then go under that cache, never into /verif/evidence.
SCRATCH = REPO != '/repo'
CACHE = os.environ.get('VERIF_CACHE') or (os.path.join(VERIF, '.cache') if not SCRATCH else os.path.join(REPO, '.verif-cache'))
OUT = os.path.join(VERIF, 'out') if not SCRATCH else os.path.join(CACHE, 'out')
EVIDENCE_DIR = os.environ.get('VERIF_EVIDENCE_DIR') or (os.path.join(VERIF, 'evidence') if not SCRATCH else os.path.join(CACHE, 'evidence'))
MMDUMP = os.path.join(CACHE, 'target-mmdump', 'release', 'mmdump')
MMDUMP_DEBUG = os.path.join(CACHE, 'target-mmdump', 'debug', 'mmdump')
ENV = dict(os.environ, CARGO_NET_OFFLINE='true')

CRATES = {
    'mimium_lang': 'crates/lib/mimium-lang',
    'state_tree': 'crates/lib/mimium-lang/state-tree',
    'mimium_scheduler': 'crates/lib/plugins/mimium-scheduler',
    'mimium_audiodriver': 'crates/lib/plugins/mimium-audiodriver',
    'mimium_cli': 'crates/bin/mimium-cli',
}
# crates whose MIR every program-level check loads: the runtimes, the state tree and the driver-facing runtime wrapper
# (VmDspRuntime in mimium-audiodriver; WasmDspRuntime lives in mimium-lang)
PROG_CRATES = ('mimium_lang', 'state_tree', 'mimium_audiodriver', 'mimium_scheduler')


def prog_mirs(extra=()):
    return [dump_mir(c)[0] for c in PROG_CRATES + tuple(extra)]



def log(*a):
    print(*a, file=sys.stderr, flush=True)


def tree_hash(paths):
    h = hashlib.sha256()
    for root in paths:
        for dp, dn, fns in sorted(os.walk(root)):
            dn[:] = sorted(d for d in dn if d not in ('target', '.git'))
            for fn in sorted(fns):
                if fn.endswith(('.rs', '.toml', '.template', '.lock')):
                    p = os.path.join(dp, fn)
                    h.update(p.encode())
                    with open(p, 'rb') as f:
                        h.update(f.read())
    return h.hexdigest()[:20]


def build_mmdump(debug=False):
    """(re)build tools/mmdump against /repo's working tree; cargo decides freshness"""
    t = time.time()
    env = dict(ENV, RUSTFLAGS='--cfg mimium_verif', CARGO_TARGET_DIR=os.path.join(CACHE, 'target-mmdump'))
    src = os.path.join(VERIF, 'tools', 'mmdump')
    if SCRATCH:
        # the helper's path dependencies name /repo: build a copy whose manifest points at the scratch tree
        import shutil
        dst = os.path.join(CACHE, 'mmdump-src')
        shutil.rmtree(dst, ignore_errors=True)
        shutil.copytree(src, dst, ignore=shutil.ignore_patterns('target'))
        mf = os.path.join(dst, 'Cargo.toml')
        with open(mf) as f:
            manifest = f.read()
        with open(mf, 'w') as f:
            f.write(manifest.replace('"/repo/', '"%s/' % REPO.rstrip('/')))
        src = dst
    r = subprocess.run(['cargo', 'build', '--offline'] + ([] if debug else ['--release']), cwd=src,
                       env=env, capture_output=True, text=True)
    if r.returncode != 0:
        log(r.stderr[-4000:])
        raise SystemExit(2)
    return time.time() - t


def dump_mir(crate):
    """nightly MIR dump of one crate of /repo, cached by source hash"""
    rel = CRATES[crate]
    src = os.path.join(REPO, rel)
    roots = [os.path.join(src, 'src'), os.path.join(src, 'Cargo.toml')]
    if crate != 'state_tree':
        # dependants see their dependencies' sources too
        roots.append(os.path.join(REPO, CRATES['state_tree'], 'src'))
    if crate in ('mimium_scheduler', 'mimium_audiodriver', 'mimium_cli'):
        roots.append(os.path.join(REPO, CRATES['mimium_lang'], 'src'))
    if crate == 'mimium_cli':
        roots.append(os.path.join(REPO, CRATES['mimium_audiodriver'], 'src'))
        roots.append(os.path.join(REPO, CRATES['mimium_scheduler'], 'src'))
    h = hashlib.sha256()
    for r_ in roots:
        if os.path.isdir(r_):
            h.update(tree_hash([r_]).encode())
        else:
            with open(r_, 'rb') as f:
                h.update(f.read())
    key = h.hexdigest()[:20]
    mdir = os.path.join(CACHE, 'mir')
    os.makedirs(mdir, exist_ok=True)
    out = os.path.join(mdir, '%s.%s.mir' % (crate, key))
    if os.path.exists(out) and os.path.getsize(out) > 1000:
        return out, 0.0
    t = time.time()
    tdir = os.path.join(CACHE, 'target-mir')
    # force rustc to run again for this crate (an up-to-date crate prints nothing)
    for fp in glob.glob(os.path.join(tdir, 'debug', '.fingerprint', rel.split('/')[-1].replace('_', '-') + '-*')):
        subprocess.run(['rm', '-rf', fp])
    env = dict(ENV, CARGO_TARGET_DIR=tdir)
    r = subprocess.run(['cargo', '+nightly', 'rustc', '--offline', '--lib', '--', '-Zunpretty=mir',
                        '-C', 'overflow-checks=on', '-C', 'debug-assertions=on'],
                       cwd=src, env=env, capture_output=True, text=True)
    if r.returncode != 0 or len(r.stdout) < 1000:
        log(r.stderr[-4000:])
        log('MIR dump of %s failed' % crate)
        raise SystemExit(2)
    for old in glob.glob(os.path.join(mdir, '%s.*.mir' % crate)):
        os.remove(old)
    with open(out + '.tmp', 'w') as f:
        f.write(r.stdout)
    os.rename(out + '.tmp', out)
    return out, time.time() - t


def mmdump(*args, input=None, timeout=120, debug=False):
    r = subprocess.run([MMDUMP_DEBUG if debug else MMDUMP] + list(args), capture_output=True, text=True, input=input, timeout=timeout)
    if r.returncode != 0 or not r.stdout.strip():
        raise RuntimeError('mmdump %s failed: %s' % (' '.join(args), r.stderr[-2000:]))
    return json.loads(r.stdout)


def compile_program(path, scheduler=False):
    args = ['compile', path] + (['--scheduler'] if scheduler else [])
    return mmdump(*args)


def replay(spec, timeout=60, debug=False):
    if 'scheduler' not in spec or spec['scheduler'] is None or spec['scheduler'] is False:
        # programs of the scheduler group always run with the plugin
        spec = dict(spec, scheduler=os.path.basename(spec.get('src_path', '')).startswith(('sc_', 'scheduler')))
    return mmdump('replay', '-', input=json.dumps(spec), timeout=timeout, debug=debug)


# ---------------------------------------------------------------------------------------------------
# known findings
# ---------------------------------------------------------------------------------------------------
def load_known_findings():
    """lines: 'known: property=<id> key=<key> <text>'  |  'fixed: property=<id> <commit> <text>'"""
    p = os.path.join(VERIF, 'known-findings.txt')
    known = {}
    if os.path.exists(p):
        for ln in open(p):
            ln = ln.strip()
            if ln.startswith('known:'):
                parts = ln.split()
                pid = [x for x in parts if x.startswith('property=')][0].split('=', 1)[1]
                key = [x for x in parts if x.startswith('key=')][0].split('=', 1)[1]
                known.setdefault(pid, {})[key] = ln
    return known


# ---------------------------------------------------------------------------------------------------
# evidence
# ---------------------------------------------------------------------------------------------------
def write_evidence(pid, tier, seed, level, coverage, assumptions, wall_s, violations):
    os.makedirs(EVIDENCE_DIR, exist_ok=True)
    ev = dict(property_id=pid, tier=tier, seed=seed, level=level, coverage=coverage,
              assumptions=assumptions, wall_s=round(wall_s, 2), violations=violations)
    p = os.path.join(EVIDENCE_DIR, '%s.json' % pid)
    with open(p + '.tmp', 'w') as f:
        json.dump(ev, f, indent=1, default=str)
    os.rename(p + '.tmp', p)
    return p


# ---- coverage gate -------------------------------------------------------------------------------------------------------
# A change to /repo can make the engines lose sight of code they used to decide (a std function that has no model yet, a new
# MIR shape): the affected paths end as "unsupported" and would silently count as "nothing found".  Every check therefore compares
# its model-gap messages with /verif/coverage-baseline.json (recorded on the unchanged tree, union over several runs and seeds):
# a gap that is not listed there is reported as COVERAGE-LOSS and the check exits 2 (inconclusive, not a violation, not a pass).
GAP_NOISE = ('time budget', 'solver unknown', 'step limit', 'path limit', 'deadline', 'timeout', 'timed out', 'did not reproduce', 'does not exhibit',
             'does not reproduce', 'not reproduce', 'see C03', 'budget')
SEEDED_PIDS = ('C07', 'C08', 'C11', 'C20')      # their tags depend on VERIF_SEED: keyed by message class instead


def gap_key(pid, msg):
    if 'unsupported:' not in msg and 'machinery error' not in msg:
        return None
    if any(w in msg for w in GAP_NOISE):
        return None
    if pid in SEEDED_PIDS:
        body = msg.split('unsupported:', 1)[-1].split(' @ ')[0]
        body = re.sub(r'0x[0-9a-f]+|\d+', 'N', body)
        return body.strip()[:80]
    return msg.split(': ', 1)[0]


def coverage_gate(pid, tier, inconclusive):
    """-> (loss lines, current gap keys)"""
    keys = {}
    for m in inconclusive:
        k = gap_key(pid, m)
        if k is not None:
            keys.setdefault(k, m)
    try:
        base = json.load(open(os.path.join(VERIF, 'coverage-baseline.json')))
    except Exception:
        return [], sorted(keys)
    if os.environ.get('VERIF_NO_COVERAGE_GATE'):
        return [], sorted(keys)
    allowed = set((base.get(pid) or {}).get(tier) or [])
    if pid not in base or tier not in base[pid]:
        return [], sorted(keys)
    loss = ['COVERAGE-LOSS property=%s %s' % (pid, keys[k][:300]) for k in sorted(keys) if k not in allowed]
    return loss, sorted(keys)


def save_replay(pid, n, obj):
    d = os.path.join(OUT, pid)
    os.makedirs(d, exist_ok=True)
    p = os.path.join(d, '%s.json' % n)
    with open(p, 'w') as f:
        json.dump(obj, f, indent=1, default=str)
    return p


FIXTURE_DIR = 'crates/lib/mimium-test/tests/mmm'


GN_QUICK_STRIDE = 6


def corpus_files(groups=None, tier='thorough', seed=0):
    """groups: op/st/ct/cl = /verif/corpus/<group>_*.mmm ; gn = the grammar-generated programs (tools/gen_programs.py; the quick tier
    takes every 6th of them, rotated by VERIF_SEED, the thorough tier all); fx = the repository's own test fixtures (those the
    compiler accepts and the engines support are analysed, the rest is reported as skipped)"""
    out = []
    cdir = os.path.join(VERIF, 'corpus')
    gn_all = os.environ.get('VERIF_GN') == 'all' or tier != 'quick'
    for fn in sorted(os.listdir(cdir)):
        if fn.endswith('.mmm'):
            g = fn.split('_')[0]
            if groups is None or g in groups:
                if g == 'gn' and not gn_all:
                    try:
                        if int(fn[3:6]) % GN_QUICK_STRIDE != seed % GN_QUICK_STRIDE:
                            continue
                    except ValueError:
                        continue
                if g == 'ga' and not gn_all:
                    # generated argument-passing programs: 6 call modes, program i has mode i % 6; quick takes a third, rotated by
                    # VERIF_SEED, with every mode present
                    try:
                        if (int(fn[3:6]) // 6) % 3 != seed % 3:
                            continue
                    except ValueError:
                        continue
                out.append(os.path.join(cdir, fn))
    if groups is not None and 'sc' in groups:
        # programs using the scheduler plugin (`@`): the repository's scheduler fixtures (sc_* of /verif/corpus are picked up above)
        fdir = os.path.join(REPO, FIXTURE_DIR)
        for fn in sorted(os.listdir(fdir)):
            if fn.endswith('.mmm') and fn.startswith('scheduler') and fn not in ('scheduler_invalid.mmm', 'scheduler_reactive_imported.mmm'):
                out.append(os.path.join(fdir, fn))
    if groups is not None and 'fx' in groups:
        fdir = os.path.join(REPO, FIXTURE_DIR)
        for fn in sorted(os.listdir(fdir)):
            if fn.endswith('.mmm') and not fn.startswith(('scheduler', 'module_', 'multistage', 'mininotation', 'lift_', 'probe', 'slider', 'error_', 'fail_', 'many_errors', 'imported_', 'macro_', 'auto_spread')):
                out.append(os.path.join(fdir, fn))
    only = os.environ.get('VERIF_ONLY')       # development aid: restrict to programs whose name starts with one of these prefixes
    if only:
        out = [f for f in out if os.path.basename(f).startswith(tuple(only.split(',')))]
    return out
