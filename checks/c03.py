"""C03 — accepted programs run without crashes or memory errors (bounded model checking of panic / UB obligations).

Per corpus program and per runtime, every feasible path of k dsp steps (all input words symbolic; in the inductive
query also all state words) is executed symbolically; every `assert` terminator of the MIR (overflow, bounds,
division, debug_assert), every reachable panic/unwrap/expect/unreachable, and every raw access
(ptr.add, slice::from_raw_parts, get_unchecked, SlotMap::get_unchecked) is a proof obligation.
"""
import os
import sys
import time

sys.path.insert(0, os.path.dirname(os.path.dirname(os.path.abspath(__file__))))
from checks import common, progcheck
from checks.report import Report
from checks.run_programs import run_jobs
from mirsym.interp import PanicReached

PID = 'C03'


class SafetyAnalysis(progcheck.ProgramAnalysis):
    """one backend at a time so that a failure of one runtime cannot hide the other's"""

    def __init__(self, **kw):
        progcheck.ProgramAnalysis.__init__(self, **kw)
        self.result['backends'] = list(self.backends)

    def after_step(self, it, step, init):
        r = self.result
        r['checks'] += 1
        if 'vm_rc' in step:
            rc = step['vm_rc']
            n_out = self.pj['io']['output']
            if isinstance(rc.v, int):
                if rc.v != n_out and not (rc.v >= 0x8000000000000000):
                    raise PanicReached('dsp returned %d words but its type declares %d' % (rc.v, n_out), 'nret')
            if len(step['vm_out']) != n_out:
                raise PanicReached('dsp left %d output words, type declares %d' % (len(step['vm_out']), n_out), 'nret')
            pos = step['vm_pos']
            if isinstance(pos.v, int) and pos.v != 0:
                # not a crash by itself (C05 reports it); the next step's accesses are what C03 judges
                pass
        if 'wasm_state' in step:
            if len(step['wasm_state']) > self.state_size:
                raise PanicReached('WASM host grew the dsp state vector to %d words; the published layout has %d '
                                   '(an access outside the state storage, hidden by Vec::resize)' % (len(step['wasm_state']), self.state_size), 'oob')


def confirm(path, d, steps, backend):
    """replay a panic model on the real build: dev profile (overflow checks + hook asserts) and release"""
    out = {}
    for debug in (True, False):
        spec = dict(src_path=path, backend=backend, steps=steps, inputs=d.get('inputs', []), init_state=d.get('init_state'),
                    now_start=d.get('now0', 0), timeout_s=20)
        try:
            rr = common.replay(spec, debug=debug).get(backend, {})
        except Exception as e:
            rr = dict(error=repr(e))
        bad = bool(rr.get('panic') or rr.get('crash') or rr.get('timeout') or any(c < 0 for c in (rr.get('return_codes') or [])))
        if backend == 'wasm' and 'grew the dsp state' in d.get('msg', ''):
            sa = rr.get('state_after') or []
            bad = bad or any(len(s) > d.get('layout_size', 1 << 60) for s in sa)
        out['debug' if debug else 'release'] = dict(confirmed=bad, panic=rr.get('panic'), crash=rr.get('crash'), timeout=rr.get('timeout'),
                                                    return_codes=rr.get('return_codes'), outputs=rr.get('outputs'))
        out['spec'] = spec
    return out['debug']['confirmed'] or out['release']['confirmed'], out


def alloc_kernel_lemma(files, rep):
    """the inline bump allocator of the emitted WASM, decided for ALL pointer / memory-size values (checks/alloclemma.py)"""
    from checks import alloclemma as A
    import struct
    info = dict(sequences=0, holds=0, programs=0)
    if not A.vacuity_witness():
        rep.inconclusive.append('alloc-kernel: unsupported: the vacuity witness of the allocator lemma is not falsified')
        return info
    seen = {}
    for f in files:
        try:
            cj = common.compile_program(f, os.path.basename(f).startswith(('sc_', 'scheduler')))
        except Exception:
            continue
        wat = (cj.get('wasm') or {}).get('wat')
        if not wat:
            continue
        info['programs'] += 1
        try:
            for key, seq in A.extract_sequences(wat).items():
                seen.setdefault(key, (seq, os.path.basename(f)))
        except A.LemmaError as e:
            rep.inconclusive.append('alloc-kernel: unsupported: %s (%s)' % (e, os.path.basename(f)))
    if info['programs'] >= 20 and not seen:       # (a handful of leaf programs may well contain no run-time allocation)
        rep.inconclusive.append('alloc-kernel: unsupported: no inline allocation sequence recognised in any emitted module')
    failed = None
    for (size, _), (seq, prog) in sorted(seen.items(), key=lambda kv: kv[0][0]):
        info['sequences'] += 1
        try:
            verdict, model = A.decide(seq, size)
        except A.LemmaError as e:
            rep.inconclusive.append('alloc-kernel: unsupported: %s (%s)' % (e, prog))
            continue
        if verdict == 'holds':
            info['holds'] += 1
        elif verdict == 'unknown':
            rep.inconclusive.append('alloc-kernel[%s, %d bytes]: solver unknown' % (prog, size))
        elif failed is None:
            failed = dict(program=prog, size=size, model=model)
    if failed is not None:
        # replay: a program that allocates past the initial linear memory inside ONE tick, VM against WASM on the real runtimes
        hp = os.path.join(common.CACHE, 'c03_heavy_tick.mmm')
        os.makedirs(common.CACHE, exist_ok=True)
        open(hp, 'w').write(A.HEAVY)
        row = [struct.unpack('<Q', struct.pack('<d', 1.0))[0]]
        rep.replays += 1
        try:
            rr = common.replay(dict(src_path=hp, backend='both', steps=2, inputs=[row, row], timeout_s=60), timeout=180)
            vm, wa = rr.get('vm', {}), rr.get('wasm', {})
            bad = bool(wa.get('panic') or wa.get('crash') or wa.get('timeout')) or (vm.get('outputs') != wa.get('outputs'))
            detail = dict(vm=dict(outputs=vm.get('outputs'), panic=vm.get('panic')), wasm=dict(outputs=wa.get('outputs'), panic=wa.get('panic'), crash=wa.get('crash')))
        except Exception as e:
            bad, detail = False, dict(error=repr(e))
        rec = dict(program='(emitted allocator sequence, first seen in %s)' % failed['program'], backend='wasm', mode='kernel', kind='oob',
                   msg='the inline allocator hands out a %d-byte cell that is not backed by linear memory: alloc_ptr=%d with %d pages committed leaves %d pages and alloc_ptr=%d'
                       % (failed['size'], failed['model']['alloc_ptr'], failed['model']['pages'], failed['model']['pages_after'], failed['model']['new_ptr']),
                   where='wasmgen emit_runtime_alloc', model=failed['model'], replay=detail)
        if bad:
            rep.finding('wasm-alloc-kernel', rec)
        else:
            rep.inconclusive.append('alloc-kernel: the lemma fails for %s but a tick allocating past the initial memory runs alike on both real runtimes' % failed['model'])
    return info


def run(tier, seed):
    quick = tier == 'quick'
    rep = Report(PID, tier, seed, 'model_checking')
    common.build_mmdump()
    common.build_mmdump(debug=True)
    mirs = common.prog_mirs()
    groups = ['op', 'st', 'ct', 'cl', 'fi', 'gn', 'ga', 'fx', 'sc']
    files = common.corpus_files(groups, tier, seed)
    steps = 3 if quick else 6
    budget = 60 if quick else 300
    qto = 5000 if quick else 30000
    jobs = []
    for f in files:
        for be in ('vm', 'wasm'):
            for mode, st in (('bmc', steps), ('inductive', 1)):
                jobs.append(('analysis', dict(cls=('checks.c03', 'SafetyAnalysis'), path=f, mir_paths=mirs, steps=st, mode=mode, backends=(be,),
                                              query_timeout_ms=qto, time_budget_s=budget, seed=seed)))
    res = run_jobs(jobs)
    lemma = alloc_kernel_lemma(files, rep)
    npaths = nobl = 0
    for r in res:
        if not rep.absorb(r):
            continue
        npaths += r.get('paths', 0)
        nobl += r.get('checks', 0)
        path = r.get('path') or os.path.join(common.VERIF, 'corpus', r['program'] + '.mmm')
        be = r['backends'][0]
        done = False
        for d in r.get('panics', []):
            if done:
                break
            d['layout_size'] = r.get('state_size')
            rep.replays += 1
            ok, detail = confirm(path, d, r['steps'], be)
            rec = dict(program=r['program'], backend=be, mode=r['mode'], kind=d['kind'], msg=d['msg'], where=d['where'],
                       model=dict(inputs=d.get('inputs'), init_state=d.get('init_state'), now0=d.get('now0')), replay=detail)
            if ok:
                done = True
                rep.finding('%s/%s' % (r['program'], be), rec)
            elif r['mode'] == 'inductive':
                rep.inconclusive.append('%s[%s/%s]: obligation "%s" fails from an arbitrary state but the model did not reproduce on the real build '
                                        '(state not reachable or invariant too weak)' % (r['program'], r['mode'], be, d['msg'][:80]))
            else:
                rep.inconclusive.append('%s[%s/%s]: obligation "%s" has a solver model that did not reproduce on the real build' % (r['program'], r['mode'], be, d['msg'][:80]))
        if len(rep.samples) < 8 and r['mode'] == 'bmc':
            rep.samples.append(dict(program=r['program'], backend=be, steps=r['steps'], feasible_paths=r['paths'],
                                    obligations_failed=len(r.get('panics', [])), solver=r.get('solver')))
    cov = dict(states=max(1, npaths), transitions=max(1, rep.stats['queries']), traces_validated_against_impl=rep.replays,
               programs=len(rep.programs), corpus_groups=groups, steps_bmc=steps, alloc_kernel_lemma=lemma,
               bounds='corpus groups %s; per runtime: BMC %d dsp steps from the initial state + 1 inductive step from arbitrary state words '
                      '(delay indices < len); all input words symbolic; call depth <= 400; %d ms per query; %d s per program' % (groups, steps, qto, budget),
               obligation_kinds=['MIR assert terminators (overflow, bounds, div-by-zero, debug_assert)', 'panic!/unwrap/expect/unreachable reachable',
                                 'raw pointer arithmetic and from_raw_parts inside the allocation', 'get_unchecked index < len', 'SlotMap::get_unchecked key alive',
                                 'wasm traps', 'WASM host must not grow the state vector beyond the published layout', 'dsp returns the declared number of words',
                                 'termination: step limit (5e6 MIR statements / 2e6 wasm instructions per path)',
                                 'kernel lemma: every distinct inline allocation sequence of the emitted WASM hands out a cell backed by linear memory, for ALL allocator pointers p <= M * 64 KiB and all committed sizes M <= 32768 pages (the growth path is dead code in every corpus run)'])
    assumptions = ['program dimension = finite corpus (near-miss type mutations and "every accepted program" are outside the claim)',
                   'std / slotmap / wasmtime callees are modelled (stubs_used); raw accesses are checked against the modelled allocation sizes',
                   'a failing obligation is reported only when the model reproduces on the real build (dev profile with --cfg mimium_verif bounds asserts, or release)']
    return rep.finish(cov, assumptions)
