"""C08 — state migration plans are well-formed and keep everything that survives (bounded model checking over layouts).

The MIR of the whole state-tree crate (build_state_storage_patch_plan, take_diff, build_patches_recursive, lcs_by_score,
nodes_match, get_node_at_path, path_to_address, total_size, PartialEq, apply_state_storage_patch_plan, apply_patches) is
executed symbolically at T = u64 on pairs of layout SHAPES (concrete) whose leaf sizes are all SYMBOLIC in [0, 2^32):
every coincidence / non-coincidence between sizes is a path fork decided by z3, and the well-formedness clauses are
solver queries over the symbolic patch fields.
"""
import itertools
import json
import os
import random
import sys
import time
import z3

sys.path.insert(0, os.path.dirname(os.path.dirname(os.path.abspath(__file__))))
from checks import common
from checks.report import Report
from mirsym.mirparse import MirFile
from mirsym.layouts import Layouts
from mirsym.interp import Crate, Interp, Explorer, PanicReached, Unsupported, PathInfeasible
from mirsym.models import Models
from mirsym.smt import Smt
from mirsym.lia import Lia, Untranslatable
from mirsym.values import Sc, Ref, Agg, Slice, VecV, BoxV

PID = 'C08'
_CR = {}


class PlanViolation(PanicReached):
    def __init__(self, clause, msg):
        PanicReached.__init__(self, '%s: %s' % (clause, msg), 'plan')
        self.clause = clause


def get_crate(mir):
    c = _CR.get(mir)
    if c is None:
        L = Layouts()
        L.scan_dir(os.path.join(common.REPO, common.CRATES['state_tree'], 'src'))
        c = Crate([MirFile(mir)], L, common.REPO)
        _CR[mir] = c
    return c


# ---------------------------------------------------------------------------------------------------
# shapes:  ('F', [children]) | ('D', id) | ('M', id) | ('E', id)     id = name of the size variable
# ---------------------------------------------------------------------------------------------------
def shape_str(sh):
    if sh[0] == 'F':
        return 'F[' + ','.join(shape_str(c) for c in sh[1]) + ']'
    return '%s:%s' % (sh[0], sh[1])


def relabel(sh, prefix, counter):
    if sh[0] == 'F':
        return ('F', [relabel(c, prefix, counter) for c in sh[1]])
    counter[0] += 1
    return (sh[0], '%s%d' % (prefix, counter[0]))


def leaves(sh, out=None):
    if out is None:
        out = []
    if sh[0] == 'F':
        for c in sh[1]:
            leaves(c, out)
    else:
        out.append(sh)
    return out


def nodes(sh, path=(), out=None):
    """all nodes with paths"""
    if out is None:
        out = []
    out.append((path, sh))
    if sh[0] == 'F':
        for i, c in enumerate(sh[1]):
            nodes(c, path + (i,), out)
    return out


def enum_trees(n, depth):
    if n == 1:
        for k in 'DME':
            yield (k, None)
        yield ('F', [])
        return
    if depth == 0:
        return
    for kids in enum_forests(n - 1, depth - 1):
        yield ('F', kids)


def enum_forests(n, depth):
    if n == 0:
        yield []
        return
    for first in range(1, n + 1):
        for t in enum_trees(first, depth):
            for rest in enum_forests(n - first, depth):
                yield [t] + rest


def enum_root_shapes(max_nodes, depth=3):
    for n in range(1, max_nodes + 1):
        for t in enum_trees(n, depth):
            if t[0] == 'F':
                yield t


class Sym(object):
    """size environment: variable name -> z3 BV64 (or int in concrete mode)"""

    def __init__(self, smt, concrete=None):
        self.smt = smt
        self.vars = {}
        self.concrete = concrete

    def size(self, name):
        if self.concrete is not None:
            return self.concrete[name]
        v = self.vars.get(name)
        if v is None:
            v = z3.BitVec('sz_' + name, 64)
            self.vars[name] = v
            self.smt.add(z3.ULT(v, z3.BitVecVal(1 << 32, 64)))
        return v

    def cost(self, leaf):
        s = self.size(leaf[1])
        return s + 2 if leaf[0] == 'D' else s


def build_value(it, sh, sym, tag, e):
    k = sh[0]
    if k == 'F':
        return Agg(tag, e.variant_index('FnCall'), [VecV([BoxV(build_value(it, c, sym, tag, e)) for c in sh[1]])])
    v = sym.size(sh[1])
    if k == 'D':
        return Agg(tag, e.variant_index('Delay'), [Sc('u64', v)])
    return Agg(tag, e.variant_index('Mem' if k == 'M' else 'Feed'), [Sc('u64', v)])


def layout(sh, sym):
    """{path: (addr, size)} by the property's own arithmetic (reference), total"""
    out = {}

    def rec(node, path, base):
        if node[0] == 'F':
            off = base
            size = 0
            for i, c in enumerate(node[1]):
                noff = rec(c, path + (i,), off)
                size = size + out[path + (i,)][1]
                off = noff
            out[path] = (base, size)
            return off
        c = sym.cost(node)
        out[path] = (base, c)
        return base + c
    total = rec(sh, (), 0)
    return out, total


def match_cond(a, b, sym):
    """z3 Bool (or python bool): subtrees a, b have identical shape (kinds, arity, leaf sizes)"""
    if a[0] != b[0]:
        return False
    if a[0] == 'F':
        if len(a[1]) != len(b[1]):
            return False
        conds = [match_cond(x, y, sym) for x, y in zip(a[1], b[1])]
        if any(c is False for c in conds):
            return False
        conds = [c for c in conds if c is not True]
        if not conds:
            return True
        return z3.And(*conds) if len(conds) > 1 else conds[0]
    sa, sb = sym.size(a[1]), sym.size(b[1])
    if isinstance(sa, int) and isinstance(sb, int):
        return sa == sb
    if a[1] == b[1]:
        return True
    return sa == sb


def Z(x):
    return z3.BitVecVal(x, 64) if isinstance(x, int) else x


def holds(smt, cond):
    """cond holds on the current path for every value of the size variables.  Decided in the integer shadow (mirsym/lia.py)
    when all terms provably do not wrap, otherwise by the bit-vector solver.  On failure smt.witness holds the sizes."""
    if cond is True:
        return True
    if cond is False:
        smt.witness = None
        return False
    if z3.is_true(z3.simplify(cond)):
        return True
    lia = getattr(smt, 'lia', None)
    if lia is not None:
        try:
            ok, model = lia.check_valid(smt.pc, cond)
            if ok is True:
                smt.stats.queries += 1
                smt.stats.unsat += 1
                return True
            if ok is False:
                smt.stats.queries += 1
                smt.stats.sat += 1
                smt.witness = {k: model.eval(v, model_completion=True).as_long() for k, v in lia.vars.items()}
                return False
        except Untranslatable as u:
            if os.environ.get('VERIF_DEBUG'):
                common.log('LIA untranslatable: %s' % u)
    r = smt.check(z3.Not(cond))
    if r == z3.unknown:
        raise Unsupported('solver unknown on a plan clause')
    if r == z3.sat:
        m = smt.model()
        smt.witness = {d.name(): m[d].as_long() for d in m.decls() if d.name().startswith('sz_')}
    return r == z3.unsat


def check_plan(it, old, new, res, sym, survivors, stats):
    """all clauses of C08 on the symbolic plan of this path; raises PlanViolation with the solver model left in smt"""
    smt = it.smt
    lo, tot_o = layout(old, sym)
    ln, tot_n = layout(new, sym)
    same_shape = match_cond(old, new, sym)
    if res.variant == 0:
        stats['obligations'] += 1
        if not holds(smt, same_shape):
            raise PlanViolation('no-op', 'plan is None although the layouts differ')
        return []
    plan = res.fields[0]
    total = plan.fields[0]
    patches = [(p.fields[0].v, p.fields[1].v, p.fields[2].v) for p in plan.fields[1].buf]
    stats['obligations'] += 2
    if same_shape is not False and not holds(smt, z3.Not(same_shape) if same_shape is not True else False):
        raise PlanViolation('no-op', 'identical layouts produce a plan instead of a no-op')
    if not holds(smt, Z(total.v) == Z(tot_n)):
        raise PlanViolation('inside', 'plan.total_size differs from the size of the new layout')
    onodes = nodes(old)
    nnodes = nodes(new)
    for (src, dst, size) in patches:
        stats['obligations'] += 2
        inb = z3.And(z3.ULE(Z(src) + Z(size), Z(tot_o)), z3.ULE(Z(dst) + Z(size), Z(tot_n)), z3.ULE(Z(src), Z(src) + Z(size)))
        if not holds(smt, inb):
            raise PlanViolation('inside', 'a patch leaves the old or the new storage')
        alts = []
        for po, no in onodes:
            for pn, nn in nnodes:
                mc = match_cond(no, nn, sym)
                if mc is False:
                    continue
                c = z3.And(Z(src) == Z(lo[po][0]), Z(dst) == Z(ln[pn][0]), Z(size) == Z(lo[po][1]), Z(size) == Z(ln[pn][1]))
                alts.append(c if mc is True else z3.And(c, mc))
        if not alts or not holds(smt, z3.Or(*alts)):
            raise PlanViolation('shape', 'a patch does not copy between two subtrees of identical shape')
    for (a, b) in itertools.combinations(patches, 2):
        stats['obligations'] += 2
        (s1, d1, z1), (s2, d2, z2) = a, b
        disj = z3.Or(Z(z1) == 0, Z(z2) == 0, z3.ULE(Z(d1) + Z(z1), Z(d2)), z3.ULE(Z(d2) + Z(z2), Z(d1)))
        if not holds(smt, disj):
            raise PlanViolation('twice', 'two patches write the same destination word')
        order = z3.Or(Z(z1) == 0, Z(z2) == 0, z3.ULT(Z(s1), Z(s2)) == z3.ULT(Z(d1), Z(d2)))
        if not holds(smt, order):
            raise PlanViolation('order', 'two patches exchange the order of their subtrees')
    if survivors is not None:
        # "untouched" is only well defined when no inserted subtree is shaped exactly like an old sibling (identically shaped
        # siblings may legitimately exchange their state): assume that for the survivor clause only
        kept_new = set(pn for (_, pn) in survivors)
        unamb = []
        for i, nc in enumerate(new[1]):
            if (i,) in kept_new:
                continue
            for oc in old[1]:
                mc = match_cond(nc, oc, sym)
                if mc is True:
                    unamb.append(z3.BoolVal(False))
                elif mc is not False:
                    unamb.append(z3.Not(mc))
        nested = any(len(po) > 1 for (po, _) in survivors)
        all_distinct = []
        ol = nl = []
        if nested:
            # survivors inside an edited voice: which new leaf continues which old leaf is only determined when no OTHER leaf of an
            # edited / inserted / deleted voice has the same kind and size as the survivor (equal ones may exchange their state).
            # The carried-over clause is therefore judged per survivor, assuming only that the survivor's OWN leaves are unique in
            # shape; all other leaves may coincide (that is where a greedy sibling matching goes wrong).  The competition clause
            # below keeps the blanket "all pairwise distinct" assumption.
            kept_old_top = set(po[0] for (po, _) in survivors if len(po) == 1)
            kept_new_top = set(pn[0] for (_, pn) in survivors if len(pn) == 1)
            ol = [(lf, i) for i, c in enumerate(old[1]) if i not in kept_old_top for lf in leaves(c)]
            nl = [(lf, i) for i, c in enumerate(new[1]) if i not in kept_new_top for lf in leaves(c)]
            for (a, _) in ol:
                for (b, _) in nl:
                    if a[0] == b[0] and a[1] != b[1]:
                        all_distinct.append(sym.size(a[1]) != sym.size(b[1]))
            for group in (ol, nl):
                for (a, _), (b, _) in itertools.combinations(group, 2):
                    if a[0] == b[0] and a[1] != b[1]:
                        all_distinct.append(sym.size(a[1]) != sym.size(b[1]))
        top_unamb = z3.And(*unamb) if unamb else z3.BoolVal(True)
        unamb = z3.And(top_unamb, *all_distinct) if all_distinct else top_unamb
        old_nodes = dict(nodes(old))
        for (po, pn) in survivors:
            stats['obligations'] += 1
            a_n, z_n = ln[pn]
            covered = Z(0)
            for (src, dst, size) in patches:
                inside = z3.And(z3.UGE(Z(dst), Z(a_n)), z3.ULE(Z(dst) + Z(size), Z(a_n) + Z(z_n)))
                covered = covered + z3.If(inside, Z(size), Z(0))
            assume = top_unamb
            if nested and len(po) > 1:
                own = leaves(old_nodes[po])
                own_ids = set(lf[1] for lf in own)
                uniq = []
                for lf in own:
                    for (m, _) in ol + nl:
                        if m[0] == lf[0] and m[1] not in own_ids:
                            uniq.append(sym.size(lf[1]) != sym.size(m[1]))
                assume = z3.And(top_unamb, *uniq) if uniq else top_unamb
                # ... and only when the plan as a whole carries fewer words than the survivors of this reading of the edit hold:
                # a plan that keeps as much under another reading of the same pair of layouts (e.g. a tie between two partial
                # matches) loses nothing that "survives"
                total_copied = Z(0)
                for (_s, _d, size) in patches:
                    total_copied = total_copied + Z(size)
                total_surv = Z(0)
                for (_po, _pn) in survivors:
                    total_surv = total_surv + Z(ln[_pn][1])
                # ... nor when it carries as many leaves as this reading has surviving leaves (ties between partial matches are
                # broken by patch count, not by words)
                n_cov = Z(0)
                for (pl, nl_) in onodes:
                    if nl_[0] == 'F':
                        continue
                    a_l, z_l = lo[pl]
                    ins = [z3.And(z3.ULE(Z(src), Z(a_l)), z3.ULE(Z(a_l) + Z(z_l), Z(src) + Z(size))) for (src, _d, size) in patches]
                    n_cov = n_cov + z3.If(z3.Or(*ins) if ins else z3.BoolVal(False), Z(1), Z(0))
                n_surv = sum(len(leaves(old_nodes[_po])) for (_po, _pn) in survivors)
                if not holds(smt, z3.Implies(assume, z3.Or(covered == Z(z_n), z3.UGE(total_copied, total_surv), z3.UGE(n_cov, Z(n_surv))))):
                    raise PlanViolation('survivor', 'surviving subtree old%s -> new%s is not carried over completely (and the plan carries fewer words than the survivors hold)' % (list(po), list(pn)))
                continue
            if not holds(smt, z3.Implies(assume, covered == Z(z_n))):
                raise PlanViolation('survivor', 'surviving subtree old%s -> new%s is not carried over completely' % (list(po), list(pn)))
        for (a, b) in itertools.combinations(patches, 2):
            stats['obligations'] += 1
            (s1, d1, z1), (s2, d2, z2) = a, b
            sdisj = z3.Or(Z(z1) == 0, Z(z2) == 0, z3.ULE(Z(s1) + Z(z1), Z(s2)), z3.ULE(Z(s2) + Z(z2), Z(s1)))
            if not holds(smt, z3.Implies(unamb, sdisj)):
                raise PlanViolation('survivor', 'one old subtree is copied to two destinations while survivors compete for it')
    return patches


# ---------------------------------------------------------------------------------------------------
# concrete reference check of a real plan (for replay confirmation and the encoder self test)
# ---------------------------------------------------------------------------------------------------
class ConcSmt(object):
    def add(self, c):
        pass


def to_json_skel(sh, sizes):
    if sh[0] == 'F':
        return {'k': 'FnCall', 'children': [to_json_skel(c, sizes) for c in sh[1]]}
    if sh[0] == 'D':
        return {'k': 'Delay', 'len': sizes[sh[1]]}
    return {'k': 'Mem' if sh[0] == 'M' else 'Feed', 'size': sizes[sh[1]]}


def concrete_clause_check(old, new, sizes, real, survivors):
    """evaluate the C08 clauses on the REAL crate's plan for concrete sizes; returns list of violated clause names"""
    sym = Sym(ConcSmt(), concrete=sizes)
    lo, tot_o = layout(old, sym)
    ln, tot_n = layout(new, sym)
    bad = []
    same = match_cond(old, new, sym) is True
    plan = real.get('plan')
    if real.get('panic'):
        return ['panic:' + str(real['panic'])[:100]]
    if plan is None:
        if not same:
            bad.append('no-op')
        return bad
    if same:
        bad.append('no-op')
    if plan['total_size'] != tot_n:
        bad.append('inside')
    ps = [(p['src_addr'], p['dst_addr'], p['size']) for p in plan['patches']]
    onodes, nnodes = nodes(old), nodes(new)
    for (s, d, z) in ps:
        if s + z > tot_o or d + z > tot_n:
            bad.append('inside')
        ok = False
        for po, no in onodes:
            for pn, nn in nnodes:
                if match_cond(no, nn, sym) is True and lo[po] == (s, z) and ln[pn] == (d, z):
                    ok = True
        if not ok:
            bad.append('shape')
    for (s1, d1, z1), (s2, d2, z2) in itertools.combinations(ps, 2):
        if z1 and z2:
            if not (d1 + z1 <= d2 or d2 + z2 <= d1):
                bad.append('twice')
            if (s1 < s2) != (d1 < d2):
                bad.append('order')
            if survivors is not None and not (s1 + z1 <= s2 or s2 + z2 <= s1):
                bad.append('survivor-src')
    if survivors is not None:
        kept_new = set(tuple(pn) for (_, pn) in survivors)
        amb = any(match_cond(nc, oc, sym) is True for i, nc in enumerate(new[1]) if (i,) not in kept_new for oc in old[1])
        ol = nl = []
        if not amb and any(len(po) > 1 for (po, _) in survivors):
            kept_old_top = set(tuple(po)[0] for (po, _) in survivors if len(po) == 1)
            kept_new_top = set(tuple(pn)[0] for (_, pn) in survivors if len(pn) == 1)
            ol = [lf for i, c in enumerate(old[1]) if i not in kept_old_top for lf in leaves(c)]
            nl = [lf for i, c in enumerate(new[1]) if i not in kept_new_top for lf in leaves(c)]
        old_nodes = dict(nodes(old))
        for (po, pn) in ([] if amb else survivors):
            if len(po) > 1:
                # judged only when the survivor's own leaves are unique in shape among the leaves of the edited voices
                own = leaves(old_nodes[tuple(po)])
                own_ids = set(lf[1] for lf in own)
                if any(m[0] == lf[0] and m[1] not in own_ids and sizes[m[1]] == sizes[lf[1]] for lf in own for m in ol + nl):
                    continue
                if sum(z for (s_, d_, z) in ps) >= sum(ln[tuple(q)][1] for (_, q) in survivors):
                    continue
                n_cov = sum(1 for (pl, nl_) in nodes(old) if nl_[0] != 'F' and any(s_ <= lo[pl][0] and lo[pl][0] + lo[pl][1] <= s_ + z for (s_, d_, z) in ps))
                if n_cov >= sum(len(leaves(old_nodes[tuple(q)])) for (q, _) in survivors):
                    continue
            a_n, z_n = ln[tuple(pn)]
            cov = sum(z for (s, d, z) in ps if d >= a_n and d + z <= a_n + z_n)
            if cov != z_n:
                bad.append('survivor')
    # application: words copied, everything else zero
    ns = real.get('new_storage')
    if ns is not None and not bad:
        exp = [0] * tot_n
        for (s, d, z) in ps:
            for i in range(z):
                exp[d + i] = 1000 + s + i
        if ns != exp:
            bad.append('zero')
    return sorted(set(bad))


# ---------------------------------------------------------------------------------------------------
# pair generation
# ---------------------------------------------------------------------------------------------------
def voice(kind, pfx, ctr):
    """small stateful 'voices' as the compiler publishes them: FnCall of leaves"""
    table = {
        'osc': ('F', [('E', None)]),
        'lp': ('F', [('E', None), ('M', None)]),
        'echo': ('F', [('D', None), ('E', None)]),
        'mfd': ('F', [('M', None), ('E', None), ('D', None)]),
        'mfm': ('F', [('M', None), ('E', None), ('M', None)]),
        'nest': ('F', [('F', [('E', None)]), ('D', None)]),
        'mem': ('M', None),
        'dly': ('D', None),
    }
    return relabel(table[kind], pfx, ctr)


def edit_pairs(rng, n, max_voices=3):
    """(old, new, survivors) derived by deleting / inserting whole subtrees (+ duplicate-and-tweak)"""
    kinds = ['osc', 'lp', 'echo', 'mfd', 'mfm', 'nest', 'mem', 'dly']
    out = []
    fixed = [
        (['mfd'], [('keep', 0), ('ins', 'mfm')]),            # append a near-copy after a voice
        (['mfd'], [('ins', 'mfm'), ('keep', 0)]),            # insert a near-copy before a voice
        (['lp', 'echo'], [('keep', 0), ('ins', 'lp'), ('keep', 1)]),
        (['osc', 'osc', 'osc'], [('keep', 0), ('keep', 2)]),
        (['echo', 'mem'], [('ins', 'dly'), ('keep', 0), ('keep', 1)]),
        (['nest', 'lp'], [('keep', 1)]),
        (['mfd', 'mfm'], [('keep', 1)]),
        (['mem', 'lp', 'mem'], [('keep', 0), ('ins', 'nest'), ('keep', 1), ('keep', 2)]),
    ]
    # ('tweak', i, how): voice i is kept but edited INSIDE (a leaf inserted at / deleted from position p): its untouched
    # leaves are surviving subtrees one level down; combined with insertions / deletions in front of other kept voices
    fixed += [
        (['lp', 'mfd'], [('ins', 'mem'), ('keep', 0), ('tweak', 1, ('ins', 1, 'M'))]),     # shift an anchor, edit a later voice inside
        (['lp', 'mfd'], [('keep', 0), ('tweak', 1, ('del', 1))]),
        (['osc', 'lp', 'echo'], [('keep', 1), ('tweak', 2, ('ins', 0, 'E'))]),                # delete in front of an anchor, edit a later voice
        (['mfm', 'lp'], [('tweak', 0, ('ins', 3, 'D')), ('ins', 'osc'), ('keep', 1)]),
        (['lp', 'echo', 'mfd'], [('ins', 'dly'), ('keep', 0), ('keep', 1), ('tweak', 2, ('del', 0))]),
    ]
    # every ordered pair of voice kinds with one of the two removed (a removed sibling before / after a survivor that shares leaves
    # with it is where partial matches compete with exact ones)
    for ka in kinds:
        for kb in kinds:
            fixed.append(([ka, kb], [('keep', 0)]))
            fixed.append(([ka, kb], [('keep', 1)]))
    n = max(n, len(fixed) + 32)
    scripts = list(fixed)
    while len(scripts) < n:
        m = rng.randint(1, max_voices)
        olds = [rng.choice(kinds) for _ in range(m)]
        script = []
        for i in range(m):
            if rng.random() < 0.3:
                script.append(('ins', rng.choice(kinds)))
            x = rng.random()
            if x < 0.55:
                script.append(('keep', i))
            elif x < 0.8 and olds[i] in ('lp', 'echo', 'mfd', 'mfm'):
                nleaves = {'lp': 2, 'echo': 2, 'mfd': 3, 'mfm': 3}[olds[i]]
                if rng.random() < 0.5:
                    script.append(('tweak', i, ('ins', rng.randint(0, nleaves), rng.choice('MED'))))
                else:
                    script.append(('tweak', i, ('del', rng.randint(0, nleaves - 1))))
        if rng.random() < 0.3:
            script.append(('ins', rng.choice(kinds)))
        if not any(s[0] in ('keep', 'tweak') for s in script):
            script.append(('keep', 0))
        scripts.append((olds, script))
    for sc in scripts[:n]:
        olds, script = sc[0], sc[1]
        ctr = [0]
        ov = [voice(k, 'o', ctr) for k in olds]
        nv, surv = [], []
        for step in script:
            op, arg = step[0], step[1]
            if op == 'keep':
                surv.append(((arg,), (len(nv),)))
                nv.append(ov[arg])          # same size variables: the subtree survives unchanged
            elif op == 'tweak':
                how = step[2]
                kids = list(ov[arg][1])
                idx = list(range(len(kids)))          # old child index of each new child (None = inserted)
                if how[0] == 'ins':
                    ctr[0] += 1
                    kids.insert(how[1], (how[2], 'n%d' % ctr[0]))
                    idx.insert(how[1], None)
                else:
                    del kids[how[1]]
                    del idx[how[1]]
                for newj, oldj in enumerate(idx):
                    if oldj is not None:
                        surv.append(((arg, oldj), (len(nv), newj)))
                nv.append(('F', kids))
            else:
                nv.append(voice(arg, 'n', ctr))
        out.append((('F', ov), ('F', nv), surv))
    return out


def exhaustive_pairs(max_nodes):
    shapes = list(enum_root_shapes(max_nodes))
    out = []
    for a in shapes:
        for b in shapes:
            c = [0]
            out.append((relabel(a, 'o', c), relabel(b, 'n', c), None))
    return out


# ---------------------------------------------------------------------------------------------------
# worker
# ---------------------------------------------------------------------------------------------------
def analyse_pair(args):
    mir, old, new, survivors, qto, max_paths = args
    t0 = time.time()
    crate = get_crate(mir)
    smt = Smt(qto)
    smt.lia = Lia()
    it = Interp(crate, smt, Models())
    it.keep_raw_conditions = True
    e = it.layouts.find_enum('StateTreeSkeleton')
    tag = it.enum_tag(e)
    ex = Explorer(smt, max_paths)
    stats = dict(obligations=0)
    out = dict(old=shape_str(old), new=shape_str(new), survivors=survivors, paths=0, findings=[], unsupported=[], truncated=False)
    cur = {}

    def path(it):
        sym = Sym(it.smt)
        cur['sym'] = sym
        o = build_value(it, old, sym, tag, e)
        n = build_value(it, new, sym, tag, e)
        res = it.call('build_state_storage_patch_plan::<u64>', [o, n], None)
        check_plan(it, old, new, res, sym, survivors, stats)
        return None
    # capture the size model of a failing clause: Explorer asks the solver for a model of the path condition; the clause's
    # own counter-model is what we want, so intercept PlanViolation here
    def path_wrapped(it):
        try:
            return path(it)
        except PlanViolation as pv:
            sizes = {}
            w = getattr(it.smt, 'witness', None) or {}
            for name in cur['sym'].vars:
                if 'sz_' + name in w:
                    sizes[name] = w['sz_' + name]
            if not sizes and it.smt.check() == z3.sat:
                m = it.smt.model()
                for name, v in cur['sym'].vars.items():
                    sizes[name] = m.eval(v, model_completion=True).as_long()
            for lf in leaves(old) + leaves(new):
                sizes.setdefault(lf[1], 1)
            out['findings'].append(dict(clause=pv.clause, msg=pv.msg, sizes=sizes, decisions=list(it.decisions)))
            raise
    res = ex.explore(it, path_wrapped)
    out['paths'] = len(res)
    out['truncated'] = ex.truncated
    for f in ex.findings:
        if f.kind != 'plan':
            sizes = {}
            if f.model is not None:
                for lf in leaves(old) + leaves(new):
                    sizes[lf[1]] = f.model.eval(z3.BitVec('sz_' + lf[1], 64), model_completion=True).as_long()
            out['findings'].append(dict(clause='panic', msg=f.msg, where=f.where, sizes=sizes, decisions=f.decisions))
    out['unsupported'] = ['%s @ %s' % u for u in ex.unsupported][:5]
    out['solver'] = smt.stats.as_dict()
    out['obligations'] = stats['obligations']
    out['functions'] = dict(it.functions_used)
    out['stubs'] = dict(it.models.used)
    out['wall_s'] = round(time.time() - t0, 2)
    return out


def selftest_pair(args):
    """concrete differential: mirsym's plan for concrete sizes == the real crate's plan (as sets)"""
    mir, old, new, sizes = args
    crate = get_crate(mir)
    smt = Smt(5000)
    it = Interp(crate, smt, Models())
    e = it.layouts.find_enum('StateTreeSkeleton')
    tag = it.enum_tag(e)
    ex = Explorer(smt, 4)
    got = {}

    def path(it):
        sym = Sym(it.smt, concrete=sizes)
        o = build_value(it, old, sym, tag, e)
        n = build_value(it, new, sym, tag, e)
        res = it.call('build_state_storage_patch_plan::<u64>', [o, n], None)
        if res.variant == 0:
            got['plan'] = None
        else:
            plan = res.fields[0]
            got['plan'] = dict(total=plan.fields[0].v, patches=sorted((p.fields[0].v, p.fields[1].v, p.fields[2].v) for p in plan.fields[1].buf))
            # also run apply through the MIR on a tagged storage
            lo, tot_o = layout(old, Sym(ConcSmt(), concrete=sizes))
            storage = [Sc('u64', 1000 + i) for i in range(tot_o)]
            ns = it.call('apply_state_storage_patch_plan', [Slice(storage, 0, len(storage)), Ref([plan], 0)], None)
            got['new_storage'] = [x.v for x in ns.buf]
        return None
    res = ex.explore(it, path)
    return dict(old=shape_str(old), new=shape_str(new), sizes=sizes, status=res[0][0] if res else 'none', detail=str(res[0][1]) if res and res[0][0] != 'ok' else '', got=got)


def run(tier, seed):
    quick = tier == 'quick'
    rep = Report(PID, tier, seed, 'model_checking')
    common.build_mmdump()
    mir = common.dump_mir('state_tree')[0]
    rng = random.Random(seed)
    max_nodes = 3 if quick else 4
    pairs = exhaustive_pairs(max_nodes)
    n_exh = len(pairs)
    edits = edit_pairs(rng, 48 if quick else 400, 2 if quick else 3)
    pairs += edits
    qto = 5000 if quick else 30000
    import multiprocessing as mp
    ctx = mp.get_context('fork')
    # --- encoder self test on concrete sizes (random + coincidences) -----------------------------------
    st_jobs, st_specs = [], []
    for (old, new, surv) in (pairs[:: max(1, len(pairs) // (80 if quick else 400))] + edits[:20]):
        names = [lf[1] for lf in leaves(old) + leaves(new)]
        sizes = {n_: rng.choice([0, 1, 1, 2, 2, 3, 5]) for n_ in set(names)}
        st_jobs.append((mir, old, new, sizes))
        st_specs.append(dict(old=to_json_skel(old, sizes), new=to_json_skel(new, sizes), old_storage=None))
    real = common.mmdump('statetree', '-', input=json.dumps(st_specs), timeout=300)
    with ctx.Pool(16) as pool:
        st_res = pool.map(selftest_pair, st_jobs, chunksize=4)
    st_bad = []
    for r, rl in zip(st_res, real):
        if r['status'] == 'ok':
            rp = rl.get('plan')
            mine = r['got'].get('plan')
            if (rp is None) != (mine is None):
                st_bad.append((r['old'], r['new'], r['sizes'], 'None-ness differs'))
            elif rp is not None:
                if sorted((p['src_addr'], p['dst_addr'], p['size']) for p in rp['patches']) != mine['patches'] or rp['total_size'] != mine['total']:
                    st_bad.append((r['old'], r['new'], r['sizes'], 'plans differ: real %s mine %s' % (rp, mine)))
                elif rl.get('new_storage') != r['got'].get('new_storage'):
                    ps_ = [(p['dst_addr'], p['size']) for p in rp['patches'] if p['size']]
                    overlap = any(a < b + zb and b < a + za for i, (a, za) in enumerate(ps_) for (b, zb) in ps_[i + 1:])
                    if not overlap:     # with overlapping destinations the result legitimately depends on HashSet order (that is clause 'twice')
                        st_bad.append((r['old'], r['new'], r['sizes'], 'applied storage differs'))
        elif r['status'] == 'panic':
            if not rl.get('panic'):
                st_bad.append((r['old'], r['new'], r['sizes'], 'encoder panics (%s), real crate does not' % r['detail'][:80]))
        else:
            rep.inconclusive.append('selftest %s -> %s: %s %s' % (r['old'], r['new'], r['status'], r['detail'][:120]))
    for b in st_bad[:5]:
        rep.machinery_errors.append('state-tree encoder mismatch: %s' % (b,))
    # --- symbolic analysis --------------------------------------------------------------------------------
    jobs = [(mir, o, n, s, qto, 64 if quick else 600) for (o, n, s) in pairs]
    with ctx.Pool(16) as pool:
        results = pool.map(analyse_pair, jobs, chunksize=8)
    npaths = nobl = 0
    for (old, new, surv), r in zip(pairs, results):
        for k in rep.stats:
            rep.stats[k] += r['solver'].get(k, 0)
        rep.functions.update(r['functions'])
        for k, v in r['stubs'].items():
            rep.stubs[k] = rep.stubs.get(k, 0) + v
        npaths += r['paths']
        nobl += r['obligations']
        for u in r['unsupported']:
            rep.inconclusive.append('%s -> %s: unsupported: %s' % (r['old'], r['new'], u[:160]))
        if r['truncated']:
            rep.inconclusive.append('%s -> %s: path limit reached' % (r['old'], r['new']))
        done = set()
        for f in r['findings']:
            if f['clause'] in done:
                continue
            sizes = f['sizes']
            spec = dict(old=to_json_skel(old, sizes), new=to_json_skel(new, sizes), old_storage=None)
            rep.replays += 1
            try:
                rl = common.mmdump('statetree', '-', input=json.dumps(spec))
            except Exception as e:
                rl = dict(panic='mmdump failed: %r' % e)
            bad = concrete_clause_check(old, new, sizes, rl, surv)
            rec = dict(old=r['old'], new=r['new'], clause=f['clause'], msg=f['msg'], sizes=sizes, survivors=surv, real_plan=rl.get('plan'), real_panic=rl.get('panic'),
                       violated_on_real_crate=bad, replay=dict(cmd='mmdump statetree', spec=spec))
            confirmed = (f['clause'] in bad) or (f['clause'] == 'panic' and any(b.startswith('panic') for b in bad)) or (f['clause'] != 'panic' and bad)
            if confirmed:
                done.add(f['clause'])
                key = classify(old, new, f['clause'])
                if f['clause'] == 'survivor' and bad != ['survivor']:
                    key = 'survivor+%s:%s' % ('+'.join(b for b in bad if b != 'survivor'), r['old'])
                rep.finding(key, rec)
            else:
                rep.inconclusive.append('%s -> %s: clause %s has a model that the real crate does not exhibit (sizes %s)' % (r['old'], r['new'], f['clause'], sizes))
        if len(rep.samples) < 8 and r['paths'] > 1:
            rep.samples.append(dict(old=r['old'], new=r['new'], feasible_paths=r['paths'], obligations=r['obligations'], survivors=surv))
    cov = dict(states=max(1, npaths), transitions=max(1, rep.stats['queries']), traces_validated_against_impl=rep.replays + len(st_res),
               layout_pairs=len(pairs), exhaustive_pairs=n_exh, exhaustive_max_nodes=max_nodes, edit_script_pairs=len(edits), obligations=nobl,
               selftest=dict(pairs=len(st_res), mismatches=len(st_bad)),
               bounds='all ordered pairs of skeleton shapes with <= %d nodes (root FnCall, depth <= 3, leaf kinds Delay/Mem/Feed) + %d edit-script pairs over voices '
                      '(<= 3 voices, <= 4 leaves each, insert/delete/duplicate-and-tweak); EVERY leaf size symbolic in [0, 2^32); %d ms per query' % (max_nodes, len(edits), qto))
    assumptions = ['HashSet<CopyFromPatch> is modelled as an insertion-ordered set; the "never written twice" clause (decided here) is what makes application order irrelevant',
                   'reference layout arithmetic (address = sum of preceding leaf costs, Delay = len+2) is the oracle for subtree ranges',
                   'application (zeros elsewhere) is checked on the real crate for the concrete witness sizes and in the concrete self test, not for symbolic storage lengths',
                   'std callees modelled (stubs_used)']
    return rep.finish(cov, assumptions)


def classify(old, new, clause):
    """key of a finding: the clause + the multiset of top-level child shapes (sizes abstracted)"""
    def sk(sh):
        if sh[0] == 'F':
            return 'F[' + ','.join(sk(c) for c in sh[1]) + ']'
        return sh[0]
    if clause == 'survivor':
        # one root cause (see known-findings.txt): the sibling matching maximises the NUMBER OF PATCHES, so a partial match
        # (several small patches) beats the exact match of a surviving subtree (one patch)
        return 'survivor:patch-count-score-prefers-partial-match'
    return '%s:%s->%s' % (clause, sk(old), sk(new))
