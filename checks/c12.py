"""C12 — long-running programs do not accumulate closures or heap objects (bounded model checking).

mirsym runs the closure / heap arms of the real VM (Closure, Close, MakeHeapClosure, CloseHeapClosure, CloneHeap, CallCls,
CallIndirect, Get/SetUpValue, drop_closure, release_*, close_upvalues_by_idx, heap::{heap_retain, heap_release}) with the
slotmap / Rc / RefCell models, and the WASM host's closure / heap functions, for 2N dsp steps with all inputs symbolic.
On every feasible path: #closures and #heap objects after step N == after step 2N; reference counts never underflow; no
SlotMap::get_unchecked on a dead key (use after release).
"""
import os
import re
import sys
import time

sys.path.insert(0, os.path.dirname(os.path.dirname(os.path.abspath(__file__))))
from checks import common, progcheck
from checks.report import Report
from checks.run_programs import run_jobs
from mirsym.interp import PanicReached
from mirsym import vmdriver

PID = 'C12'


class LeakViolation(PanicReached):
    def __init__(self, msg):
        PanicReached.__init__(self, msg, 'leak')


class LeakAnalysis(progcheck.ProgramAnalysis):
    def __init__(self, **kw):
        progcheck.ProgramAnalysis.__init__(self, **kw)
        self.result['backends'] = list(self.backends)
        self.counts = []

    def after_step(self, it, step, init):
        vm, wr = self.cur_vm, self.cur_wr
        rec = {}
        if vm is not None:
            rec['vm_closures'] = vm.field('closures').num_elems
            rec['vm_heap'] = vm.field('heap').num_elems
        if wr is not None:
            rs = wr.host.rs
            rec['wasm_heap'] = rs.fields[1].num_elems
            rec['wasm_closure_states'] = len(rs.fields[4].items)
        k = step['k']
        if k == 0:
            self.counts = []
        self.counts.append(rec)
        n = self.steps // 2
        self.result['checks'] += 1
        if k == self.steps - 1:
            a, b = self.counts[n - 1], self.counts[self.steps - 1]
            grow = ['%s%+g' % (key, (b[key] - a[key]) / float(n)) for key in a if a[key] != b[key]]
            if grow:
                raise LeakViolation('live objects per sample between sample %d and %d: %s (growth without bound) [%s]' % (
                    n, self.steps, ' '.join(grow), ', '.join('%s %d->%d' % (key, a[key], b[key]) for key in a if a[key] != b[key])))
            self.result.setdefault('count_samples', []).append(dict(after_N=a, after_2N=b))


def confirm(path, d, steps):
    """re-run the witness inputs on the real runtimes (mmdump replay records closures.len() / heap.len() after every sample): the
    claimed growth per sample of every observable counter must be what the real run shows"""
    rr = common.replay(dict(src_path=path, backend='both', steps=steps, inputs=d.get('inputs', []), timeout_s=30))
    out = {}
    n = steps // 2
    real = {}
    for be in ('vm', 'wasm'):
        b = rr.get(be, {})
        cl, hp = b.get('closures_len') or [], b.get('heap_len') or []
        out[be] = dict(closures_len=cl, heap_len=hp, panic=b.get('panic'))
        if b.get('panic') or b.get('crash'):
            return True, out
        if len(cl) >= steps:
            real[be + '_closures'] = (cl[steps - 1] - cl[n - 1]) / float(n)
        if len(hp) >= steps:
            real[be + '_heap'] = (hp[steps - 1] - hp[n - 1]) / float(n)
    m = re.search(r'and \d+: (.*?) \(growth', d.get('msg', ''))
    claimed = {}
    for tok in (m.group(1).split() if m else []):
        mm = re.match(r'^(\w+?)([+-][0-9.e+-]+)$', tok)
        if mm:
            claimed[mm.group(1)] = float(mm.group(2))
    out['claimed_per_sample'] = claimed
    out['real_per_sample'] = real
    checked = [k for k in claimed if k in real]
    if not checked:
        return False, out
    return all(abs(claimed[k] - real[k]) < 1e-9 for k in checked), out


def run(tier, seed):
    quick = tier == 'quick'
    rep = Report(PID, tier, seed, 'model_checking')
    common.build_mmdump()
    common.build_mmdump(debug=True)
    mirs = common.prog_mirs()
    files = common.corpus_files(['cl', 'fi', 'fx', 'sc'])
    files = [f for f in files if os.path.basename(f).startswith(('sc_', 'scheduler', 'cl_', 'fi_', 'closure', 'hof', 'box', 'enum', 'generic', 'placeholder', 'recursion', 'parameter_pack', 'record', 'pipe', 'loopcounter'))]
    N = 3 if quick else 6
    budget = 90 if quick else 400
    jobs = [('analysis', dict(cls=('checks.c12', 'LeakAnalysis'), path=f, mir_paths=mirs, steps=2 * N, mode='bmc', query_timeout_ms=5000 if quick else 30000,
                              time_budget_s=budget, seed=seed)) for f in files]
    res = run_jobs(jobs)
    npaths = 0
    for r in res:
        if not rep.absorb(r):
            continue
        npaths += r.get('paths', 0)
        path = r.get('path')
        seen = set()
        for d in r.get('panics', []):
            if d['kind'] == 'leak':
                m = re.search(r'and \d+: (.*?) \(growth', d['msg'])
                key = '%s:%s' % (r['program'], m.group(1).replace(' ', ',') if m else 'leak')
            else:
                key = '%s:%s' % (r['program'], d['kind'])
            if key in seen:
                continue
            rep.replays += 1
            if d['kind'] == 'leak':
                ok, detail = confirm(path, d, r['steps'])
            else:
                from checks import c03
                ok, detail = c03.confirm(path, d, r['steps'], 'vm')
                if not ok:
                    ok, detail = c03.confirm(path, d, r['steps'], 'wasm')
            rec = dict(program=r['program'], key=key, kind=d['kind'], msg=d['msg'], where=d.get('where'), model=dict(inputs=d.get('inputs')), replay=detail)
            if ok:
                seen.add(key)
                rep.finding(key, rec)
            else:
                rep.inconclusive.append('%s: "%s" did not reproduce on the real runtimes' % (r['program'], d['msg'][:90]))
        if len(rep.samples) < 8 and r.get('count_samples'):
            rep.samples.append(dict(program=r['program'], steps=r['steps'], feasible_paths=r['paths'], counts=r['count_samples'][:2]))
    cov = dict(states=max(1, npaths), transitions=max(1, rep.stats['queries'] + npaths), traces_validated_against_impl=rep.replays, programs=len(rep.programs), N=N,
               bounds='closure corpus (cl_*) + the repository closure / higher-order / record fixtures the engines support; 2N = %d dsp steps, counts compared after sample N and 2N on every feasible path; inputs symbolic' % (2 * N))
    assumptions = ['slotmap 1.0.7 modelled from its source (slots, free list, versions); Rc/RefCell identity wrappers', 'boxed recursive variants (CloneUserSum/ReleaseUserSum) need the global type interner: those fixtures are skipped (listed)',
                   'scheduler programs (sc_*, scheduler_* fixtures) run with the real plugin code on both runtimes (checks/schedrt.py); real threads are not modelled']
    return rep.finish(cov, assumptions)
