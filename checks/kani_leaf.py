"""Kani (CBMC) proofs of leaf kernels, run on /repo's current tree: the `#[cfg(kani)]` harnesses in
crates/lib/mimium-lang/src/runtime/vm/ringbuffer.rs (hook commit 73dfb2e).

The deciding step is CBMC's verdict over the compiled code for ALL values of the kani::any() inputs inside the harness bounds
(ring length 1..=4, 6 consecutive calls, unwind 8 with unwinding assertions on).  A failed harness is confirmed by a concrete
search on the real VM through a generated `delay` program before it is reported (replay before reporting).
"""
import os
import re
import struct
import subprocess
import time

from checks import common

HARNESSES = ['delay_returns_the_input_of_d_samples_earlier', 'empty_ring_is_inert']
TARGET = os.path.join(common.CACHE, 'target-kani')


def run_kani(timeout_s=1500):
    """-> dict(status: ok | failed | error, harnesses: {name: ...}, covers, wall_s, cbmc_s, log_tail)"""
    os.makedirs(TARGET, exist_ok=True)
    cmd = ['cargo', 'kani', '-p', 'mimium-lang', '-Z', 'unstable-options', '--ignore-global-asm', '--target-dir', TARGET]
    for h in HARNESSES:
        cmd += ['--harness', h]
    env = dict(os.environ, CARGO_NET_OFFLINE='true')
    t0 = time.time()
    try:
        r = subprocess.run(cmd, cwd=common.REPO, capture_output=True, text=True, timeout=timeout_s, env=env)
        out = r.stdout + '\n' + r.stderr
        rc = r.returncode
    except subprocess.TimeoutExpired as e:
        return dict(status='error', reason='cargo kani timed out after %d s' % timeout_s, wall_s=round(time.time() - t0, 1), harnesses={}, covers=[], log_tail=str(e)[-500:])
    res = dict(wall_s=round(time.time() - t0, 1), harnesses={}, covers=[], log_tail=out[-1500:])
    # per harness blocks: "Checking harness <path>..." ... "VERIFICATION:- SUCCESSFUL|FAILED"
    blocks = re.split(r'Checking harness ', out)[1:]
    for b in blocks:
        name = b.split('...', 1)[0].strip().split('::')[-1]
        m = re.search(r'VERIFICATION:- (\w+)', b)
        verdict = m.group(1) if m else 'UNKNOWN'
        tm = re.search(r'Verification Time: ([0-9.]+)s', b)
        failed = re.findall(r'Failed Checks: (.*)', b)
        nchecks = re.search(r'\*\* (\d+) of (\d+) failed', b)
        res['harnesses'][name] = dict(verdict=verdict, cbmc_s=float(tm.group(1)) if tm else None, failed_checks=failed[:5],
                                      checks=int(nchecks.group(2)) if nchecks else None,
                                      unwinding_failure=bool(re.search(r'unwinding assertion', ' '.join(failed))))
        for cm in re.finditer(r'Status: (\w+)\s*\n\s*- Description: "cover condition: ([^"]*)"', b):
            res['covers'].append(dict(harness=name, condition=cm.group(2), status=cm.group(1)))
    res['cbmc_s'] = round(sum(h['cbmc_s'] or 0 for h in res['harnesses'].values()), 2)
    missing = [h for h in HARNESSES if h not in res['harnesses']]
    if missing:
        res['status'] = 'error'
        res['reason'] = 'harness(es) %s not found / cargo kani failed (rc=%s)' % (missing, rc)
    elif any(h['verdict'] != 'SUCCESSFUL' for h in res['harnesses'].values()):
        res['status'] = 'failed'
    elif any(c['status'] != 'SATISFIED' for c in res['covers']):
        res['status'] = 'error'
        res['reason'] = 'a reachability witness (kani::cover!) is not satisfied: the proof would be vacuous'
    else:
        res['status'] = 'ok'
    return res


def f2b(x):
    return struct.unpack('<Q', struct.pack('<d', x))[0]


def b2f(w):
    return struct.unpack('<d', struct.pack('<Q', w))[0]


def confirm_on_real_vm():
    """concrete search for a witness of a failed delay harness on the real VM: programs `delay(N, a.0, a.1)` for small N, distinct
    inputs, every integer delay 1..N-1 (constant and changing over time); reference = the input of d samples earlier"""
    gdir = os.path.join(common.CACHE, 'kani_confirm')
    os.makedirs(gdir, exist_ok=True)
    for n in (2, 3, 4, 5):
        p = os.path.join(gdir, 'delay_%d.mmm' % n)
        open(p, 'w').write('fn dsp(a:(float,float))->float{\n  delay(%d.0, a.0, a.1)\n}\n' % n)
        steps = 3 * n + 2
        schedules = [[float(d)] * steps for d in range(1, n)] + [[float(1 + (k % max(1, n - 1))) for k in range(steps)]]
        for sched in schedules:
            xs = [100.0 + k for k in range(steps)]
            rows = [[f2b(x), f2b(t)] for x, t in zip(xs, sched)]
            rr = common.replay(dict(src_path=p, backend='vm', steps=steps, inputs=rows, timeout_s=20))['vm']
            if rr.get('panic') or rr.get('crash'):
                return True, dict(program=p, inputs=rows, panic=rr.get('panic'), crash=rr.get('crash'))
            outs = [b2f(o[0]) for o in rr.get('outputs') or []]
            for k, o in enumerate(outs):
                d = int(min(max(sched[k], 0.0), float(n - 1))) if True else 0
                if d >= 1 and k - d >= 0 and o != xs[k - d]:
                    return True, dict(program=p, ring_len=n, step=k, delay=d, expected=xs[k - d], got=o, inputs=rows)
    return False, dict(note='no divergence found on the real VM with ring lengths 2..5')
