"""The C02 corpus in abstract syntax (rendered to mimium source for the real compiler, evaluated by checks/lang.py)."""

N = lambda x: ('num', float(x))
V = lambda n: ('var', n)
B = lambda op, a, b: ('bin', op, a, b)
C = lambda f, *a: ('call', f, list(a))
I = lambda f, *a: ('intr', f, list(a))


def prog(fns, globals_=None, self_arity=None, globals_last=False):
    return dict(fns=fns, globals=globals_ or [], self_arity=self_arity or {}, globals_last=globals_last)


F = 'float'
P = {}
a, b, c = V('a'), V('b'), V('c')
x, y = V('x'), V('y')
a0, a1, a2 = ('proj', a, 0), ('proj', a, 1), ('proj', a, 2)

# operators --------------------------------------------------------------------------------------------
for nm, op in [('add', '+'), ('sub', '-'), ('mul', '*'), ('div', '/'), ('mod', '%'), ('pow', '^')]:
    P['r_' + nm] = prog([('dsp', [('a', '(float,float)')], ('let', 'x', a0, ('let', 'y', a1, B(op, x, y))))])
for nm, op in [('eq', '=='), ('ne', '!='), ('lt', '<'), ('le', '<='), ('gt', '>'), ('ge', '>=')]:
    P['r_' + nm] = prog([('dsp', [('a', '(float,float)')], ('let', 'x', a0, ('let', 'y', a1, B(op, x, y))))])
P['r_logic'] = prog([('dsp', [('a', '(float,float)')], ('let', 'x', a0, ('let', 'y', a1,
                    B('+', B('&&', B('>', x, N(0)), B('<', y, N(1))), B('||', B('>', x, y), B('==', y, N(2)))))))])
P['r_neg'] = prog([('dsp', [('a', F)], ('neg', B('*', a, N(3))))])
for fn in ['sin', 'cos', 'sqrt', 'abs', 'floor', 'ceil', 'round', 'log', 'tan']:
    P['r_' + fn] = prog([('dsp', [('a', F)], I(fn, a))])
P['r_minmax'] = prog([('dsp', [('a', '(float,float)')], B('-', I('max', a0, a1), I('min', a0, a1)))])
P['r_arith'] = prog([('dsp', [('a', '(float,float,float)')], B('-', B('*', B('+', a0, a1), a2), B('/', a0, B('+', a1, N(1.5)))))])
P['r_now'] = prog([('dsp', [('a', F)], B('+', B('*', ('now',), N(2)), a))])
P['r_samplerate'] = prog([('dsp', [('a', F)], B('/', a, ('samplerate',)))])
# let / tuples / records / functions / pipes -----------------------------------------------------------------
P['r_let'] = prog([('dsp', [('a', '(float,float)')], ('let', 'x', B('*', a0, N(2)), ('let', 'y', B('+', x, a1), ('let', 'z', B('*', y, y), B('-', V('z'), x)))))])
P['r_tuple'] = prog([('swap', [('p', '(float,float)')], ('lettuple', ['x', 'y'], V('p'), ('tuple', [y, x]))),
                     ('dsp', [('a', '(float,float)')], C('swap', a))])
# `_` placeholders in tuple patterns, in front of / between / behind bound names and nested
P['r_place1'] = prog([('dsp', [('a', '(float,float)')], ('lettuple', ['_', 'y'], a, B('*', y, N(2))))])
P['r_place2'] = prog([('dsp', [('a', '(float,float,float)')], ('lettuple', ['x', '_', 'z'], a, B('-', B('*', x, N(10)), V('z'))))])
P['r_place3'] = prog([('mk', [('p', '(float,float)')], ('lettuple', ['_', 'q'], V('p'), ('tuple', [V('q'), ('tuple', [B('+', V('q'), N(1)), B('*', V('q'), N(3))])]))),
                      ('dsp', [('a', '(float,float)')], ('lettuple', ['_', ['u', 'w']], C('mk', a), ('lettuple', ['k', ['_', 'm']], C('mk', ('tuple', [a1, a0])),
                               B('+', B('+', V('u'), B('*', V('w'), N(10))), B('+', B('*', V('k'), N(100)), B('*', V('m'), N(1000)))))))])
P['s_selfplace'] = prog([('acc', [('x', F)], ('lettuple', ['_', 'q'], ('self',), ('tuple', [B('+', V('q'), x), B('+', B('*', V('q'), N(0.5)), N(1))]))),
                         ('dsp', [('a', F)], ('lettuple', ['_', 'v'], C('acc', a), V('v')))], self_arity={'acc': 2})
P['r_record'] = prog([('dsp', [('a', '(float,float)')], ('let', 'r', ('record', [('freq', a0), ('amp', a1)]),
                                                      B('+', B('*', ('field', V('r'), 'freq'), ('field', V('r'), 'amp')), ('field', V('r'), 'amp'))))])
P['r_calls'] = prog([('sq', [('x', F)], B('*', x, x)),
                     ('hyp', [('x', F), ('y', F)], I('sqrt', B('+', C('sq', x), C('sq', y)))),
                     ('dsp', [('a', '(float,float)')], C('hyp', a0, a1))])
P['r_pipe'] = prog([('dbl', [('x', F)], B('*', x, N(2))), ('inc', [('x', F)], B('+', x, N(1))),
                    ('dsp', [('a', F)], ('pipe', ('pipe', a, 'dbl'), 'inc'))])
P['r_global'] = prog([('dsp', [('a', F)], B('+', B('*', a, V('gain')), V('offset')))],
                     globals_=[('gain', N(0.5)), ('offset', B('*', V('gain'), N(3)))])
P['r_if'] = prog([('dsp', [('a', '(float,float)')], ('if', B('>', a0, a1), B('*', a0, N(2)), B('-', a1, N(1))))])
P['r_ifchain'] = prog([('dsp', [('a', F)], ('if', B('<', a, N(0)), B('-', N(0), a), ('if', B('<', a, N(1)), B('*', a, a), N(1))))])
# state -----------------------------------------------------------------------------------------------------
P['s_self'] = prog([('dsp', [('a', F)], B('+', ('self',), a))])
P['s_counter'] = prog([('counter', [('inc', F)], B('+', ('self',), V('inc'))),
                       ('dsp', [('a', F)], B('+', C('counter', a), C('counter', N(1))))])
P['s_selftuple'] = prog([('acc', [('x', F)], ('lettuple', ['p', 'q'], ('self',), ('tuple', [B('+', V('p'), x), B('+', B('*', V('q'), N(0.5)), x)]))),
                         ('dsp', [('a', F)], C('acc', a))], self_arity={'acc': 2})
# `self` holding a nested tuple, followed by another stateful site (a wrong cell size makes the two overlap)
P['s_selfnested'] = prog([('acc3', [('x', F)], ('lettuple', ['p', ['q', 'r']], ('self',),
                               ('tuple', [B('+', V('p'), x), ('tuple', [B('+', V('q'), N(2)), B('+', V('r'), N(3))])]))),
                          ('cnt', [('x', F)], B('+', ('self',), x)),
                          ('dsp', [('a', F)], ('lettuple', ['p', ['q', 'r']], C('acc3', a), ('let', 'k', C('cnt', N(1)),
                               B('+', B('+', V('p'), B('*', V('q'), N(10))), B('+', B('*', V('r'), N(100)), B('*', V('k'), N(1000)))))))],
                         self_arity={'acc3': [1, [1, 1]]})
# a stateful call in an array-free but non-trivial position: as argument of a stateful call and as `if` condition, each followed by
# a second site
P['s_sitearg'] = prog([('cnt', [('x', F)], B('+', ('self',), x)),
                       ('lp', [('x', F)], B('+', B('*', x, N(0.5)), B('*', ('self',), N(0.5)))),
                       ('dsp', [('a', F)], ('let', 'p', C('lp', C('cnt', a)), ('let', 'q', C('cnt', N(100)), B('+', V('p'), V('q')))))])
P['s_sitecond'] = prog([('cnt', [('x', F)], B('+', ('self',), x)),
                        ('dsp', [('a', F)], ('let', 'p', ('if', B('-', C('cnt', N(1)), N(2)), a, N(0.5)), ('let', 'q', C('cnt', N(100)), B('+', V('p'), V('q')))))])
P['s_mem'] = prog([('dsp', [('a', F)], B('+', ('mem', a), a))])
P['s_mem2'] = prog([('dsp', [('a', F)], B('-', ('mem', ('mem', a)), ('mem', B('*', a, N(2)))))])
P['s_delay'] = prog([('dsp', [('a', F)], ('delay', 5, a, N(3)))])
P['s_delayt'] = prog([('dsp', [('a', '(float,float)')], ('delay', 6, a0, a1))])
P['s_nested'] = prog([('lp', [('x', F), ('g', F)], B('+', B('*', x, B('-', N(1), V('g'))), B('*', ('self',), V('g')))),
                      ('two', [('x', F)], B('+', C('lp', C('lp', x, N(0.5)), N(0.25)), ('mem', x))),
                      ('dsp', [('a', F)], B('-', C('two', a), C('two', B('*', a, N(0.5)))))])
P['s_sites'] = prog([('cnt', [('x', F)], B('+', ('self',), x)),
                     ('dsp', [('a', F)], B('+', B('*', C('cnt', a), N(10)), C('cnt', N(1))))])
P['s_delaymem'] = prog([('dm', [('x', F)], ('delay', 3, ('mem', x), N(1))),
                        ('dsp', [('a', F)], B('+', C('dm', a), C('dm', B('+', a, N(1)))))])
P['s_twodelays'] = prog([('dsp', [('a', F)], B('+', ('delay', 4, a, N(2)), ('delay', 3, a, N(1))))])
P['s_fbdelay'] = prog([('fb', [('x', F), ('g', F)], ('delay', 5, B('+', x, B('*', ('self',), V('g'))), N(3))),
                       ('dsp', [('a', F)], C('fb', a, N(0.5)))])
P['s_ifstate'] = prog([('cnt', [('x', F)], B('+', ('self',), x)),
                       ('dsp', [('a', '(float,float)')], ('if', B('>', a0, N(0.5)), C('cnt', a1), C('cnt', N(1))))])
P['s_ifone'] = prog([('cnt', [('x', F)], B('+', ('self',), x)),
                     ('dsp', [('a', '(float,float)')], ('let', 'c', ('if', B('>', a0, N(0.5)), C('cnt', a1), B('*', a1, N(2))), B('+', c, C('cnt', N(0.25)))))])
P['s_stereo'] = prog([('cnt', [('x', F)], B('+', ('self',), x)),
                      ('dsp', [('a', '(float,float)')], ('tuple', [C('cnt', a0), ('mem', a1)]))])
# closures ------------------------------------------------------------------------------------------------------
P['c_hof'] = prog([('apply', [('f', '(float)->float'), ('x', F)], ('callv', V('f'), [x])),
                   ('dsp', [('a', F)], C('apply', ('lambda', ['x'], B('*', x, N(3))), a))])
P['c_capture'] = prog([('dsp', [('a', '(float,float)')], ('let', 'k', a0, ('let', 'f', ('lambda', ['x'], B('+', B('*', x, V('k')), N(1))), ('callv', V('f'), [a1]))))])
P['c_make'] = prog([('mk', [('g', F)], ('lambda', ['x'], B('*', x, V('g')))),
                    ('dsp', [('a', F)], ('let', 'f', C('mk', N(0.5)), ('callv', V('f'), [a])))])
P['c_assign'] = prog([('dsp', [('a', F)], ('let', 'x', a, ('let', 'f', ('lambda', [], ('assign', 'x', B('+', x, N(1)), x)),
                                                     B('+', ('callv', V('f'), []), ('callv', V('f'), [])))))])

# argument passing: tuple-valued call results as arguments, closures called with computed / tuple / computed arguments, closures
# capturing a parameter that sits behind a tuple parameter (shapes reported by independent reviewers as miscompiled)
P['r_tupargs'] = prog([('mk', [('x', F)], ('tuple', [x, B('*', x, N(2))])),
                       ('comb', [('p', '(float,float)'), ('q', '(float,float)')], B('+', ('proj', V('p'), 0), B('*', ('proj', V('q'), 0), N(100)))),
                       ('dsp', [('a', F)], C('comb', C('mk', a), C('mk', B('*', a, N(10)))))])
P['r_tupargs2'] = prog([('mk', [('x', F)], ('tuple', [x, B('*', x, N(2))])),
                        ('comb', [('p', '(float,float)'), ('k', F), ('q', '(float,float)')],
                         B('+', B('+', ('proj', V('p'), 1), B('*', ('proj', V('q'), 1), N(100))), B('*', V('k'), N(10000)))),
                        ('dsp', [('a', F)], C('comb', C('mk', a), B('+', a, N(1)), C('mk', B('*', a, N(10)))))])
P['c_upvalarg'] = prog([('p', [('a', '(float,float)'), ('b', F)],
                         ('let', 'c1', ('lambda', [('x', F), ('y', F)], B('+', B('+', x, y), ('proj', V('a'), 0))),
                          ('let', 'c2', ('lambda', [], B('+', B('*', V('b'), N(100)), ('proj', V('a'), 1))),
                           B('+', ('callv', V('c1'), [N(1), N(2)]), ('callv', V('c2'), []))))),
                        ('dsp', [('a', F)], C('p', ('tuple', [a, N(7)]), N(9)))])
P['c_argstage'] = prog([('one', [('x', F)], x),
                        ('dsp', [('a', F)], ('let', 'f', ('lambda', [('u', F), ('v', '(float,float)'), ('w', F)],
                                                          B('+', B('+', B('*', V('u'), N(1000)), B('*', ('proj', V('v'), 0), N(100))),
                                                            B('+', B('*', ('proj', V('v'), 1), N(10)), V('w')))),
                                             ('callv', V('f'), [C('one', a), ('tuple', [N(3), N(4)]), C('one', N(5))])))])
# default arguments through an incomplete record: parameters are named, so the record's field order must not matter
P['r_recdefault'] = prog([('f3', [('a', F), ('b', F), ('c', F, N(5))], B('+', B('+', B('*', V('a'), N(100)), B('*', V('b'), N(10))), V('c'))),
                          ('dsp', [('x', F)], ('callrec', 'f3', [('a', V('x')), ('b', N(2))]))])
P['r_recdots'] = prog([('f3', [('a', F), ('b', F), ('c', F, N(5))], B('+', B('+', B('*', V('a'), N(100)), B('*', V('b'), N(10))), V('c'))),
                       ('dsp', [('x', F)], ('callrec', 'f3', [('a', V('x')), ('b', N(2))], 'dots'))])
P['r_recdefault2'] = prog([('f3', [('z', F), ('a', F), ('m', F, N(5))], B('+', B('+', B('*', V('z'), N(100)), B('*', V('a'), N(10))), V('m'))),
                           ('dsp', [('x', F)], ('callrec', 'f3', [('a', V('x')), ('z', N(2))]))])
# nested closures: an inner closure reads / assigns a variable of its GRANDPARENT function (through the intermediate closure)
P['c_grandread'] = prog([('p', [('a', F), ('b', F)],
                          ('let', 'c2', ('lambda', [('m', F), ('n', F)], ('let', 'd2', ('lambda', [], B('+', B('+', V('a'), B('*', V('b'), N(10))), B('*', V('m'), N(100)))),
                                                                                ('callv', V('d2'), []))),
                           ('callv', V('c2'), [N(3), N(4)]))),
                         ('dsp', [('a', F)], C('p', a, N(9)))])
P['c_grandassign'] = prog([('p', [('a', F), ('b', F)],
                            ('let', 'l', N(5), ('let', 'c2', ('lambda', [('m', F), ('n', F), ('o', F)],
                                                              ('let', 'd2', ('lambda', [], ('assign', 'l', B('+', V('b'), V('m')), B('+', V('l'), V('a')))), ('callv', V('d2'), []))),
                                                B('+', ('callv', V('c2'), [N(3), N(4), N(5)]), B('*', V('l'), N(100)))))),
                           ('dsp', [('a', F)], C('p', a, N(9)))])
# closures with their own state, called from two sites
P['c_statecls'] = prog([('mkcnt', [('inc', F)], ('lambda', [], B('+', ('self',), V('inc')))),
                        ('dsp', [('a', F)], B('+', ('callv', V('c'), []), a))], globals_=[('c', C('mkcnt', N(0.25)))], globals_last=True)

# `let y = x` copies the value: a later assignment to x (or y) does not reach the other name; also for `self` and destructured names
P['r_letcopy'] = prog([('dsp', [('a', '(float,float)')], ('let', 'x', a0, ('let', 'y', x, ('assign', 'x', B('+', x, a1), B('+', B('*', y, N(100)), x)))))])
P['r_letcopy2'] = prog([('dsp', [('a', '(float,float)')], ('lettuple', ['p', 'q'], a, ('let', 'r', V('p'), ('assign', 'r', B('*', V('r'), N(3)), B('+', B('*', V('p'), N(100)), V('r'))))))])
P['s_letcopyself'] = prog([('acc', [('x', F)], ('let', 'prev', ('self',), ('let', 'cur', V('prev'), ('assign', 'cur', B('+', V('cur'), x), B('+', V('cur'), B('*', V('prev'), N(0))))))),
                           ('dsp', [('a', F)], C('acc', a))])
# a fractional delay maximum followed by another cell: the ring must not reach into its neighbour
P['s_delayfrac'] = prog([('dsp', [('a', '(float,float)')], B('+', ('delay', 4.5, a0, N(2)), B('*', ('mem', a1), N(100))))])
# literals that a half float cannot represent exactly keep their value (0.001 used to become 0.0010004 on the VM)
P['r_smallconst'] = prog([('dsp', [('a', F)], B('+', B('+', B('*', a, N(0.001)), N(0.1)), B('*', a, N(0.0001))))])
# a block in expression position has a scope of its own: a `let` inside shadows, it does not overwrite, the outer variable
P['r_blockscope'] = prog([('dsp', [('a', '(float,float)')], ('let', 'x', a0, ('let', 'y', ('block', ('let', 'x', B('*', a1, N(2)), ('let', 'z', B('+', x, N(1)), B('*', V('z'), x)))),
                                                                      B('+', x, B('*', y, N(10))))))])
P['r_blockscope2'] = prog([('dsp', [('a', '(float,float)')], ('let', 'x', a0, ('let', 'y', ('block', ('let', 'w', B('*', a1, N(2)), ('assign', 'x', B('+', x, V('w')), B('+', V('w'), N(1))))),
                                                                       B('+', x, B('*', y, N(1000))))))])
# stateful call sites in the arms of `if`: every site owns its cell, only the taken arm's cells advance, sites behind the `if` are
# not disturbed (conditions are comparison results)
P['s_ifstate2'] = prog([('cnt', [('x', F)], B('+', ('self',), x)),
                        ('dsp', [('a', F)], ('let', 'n', C('cnt', N(1)), ('let', 'r', ('if', B('>', a, N(0.5)), C('cnt', N(1)), C('cnt', N(10))),
                                                                        B('+', B('+', V('r'), B('*', C('cnt', N(100)), N(1))), B('*', V('n'), N(100000))))))])
P['s_ifnest'] = prog([('cnt', [('x', F)], B('+', ('self',), x)),
                      ('two', [('x', F)], B('+', C('cnt', x), B('*', C('cnt', B('*', x, N(2))), N(10)))),
                      ('dsp', [('a', '(float,float)')], ('let', 'n', C('cnt', N(1)),
                               ('let', 'r', ('if', B('>', a0, N(0.5)), C('two', N(1)), ('if', B('>', a1, N(0.5)), C('cnt', N(5)), N(7))),
                                B('+', B('+', V('r'), B('*', C('cnt', N(100)), N(1000))), B('*', V('n'), N(1000000))))))])
P['s_ifmem'] = prog([('dsp', [('a', '(float,float)')], ('let', 'p', ('if', B('>', a0, N(0.5)), ('mem', a1), ('delay', 3, a1, N(2))),
                                                    B('+', V('p'), B('*', ('mem', a0), N(100)))))])
# two closures made by the same factory own their captured variable separately
P['c_twoinst'] = prog([('mkc', [], ('let', 'x', N(0), ('lambda', [('inc', F)], ('let', 'res', x, ('assign', 'x', B('+', x, V('inc')), V('res')))))),
                       ('dsp', [('a', F)], B('+', ('callv', V('c1'), [a]), B('*', ('callv', V('c2'), [N(1)]), N(100))))],
                      globals_=[('c1', C('mkc')), ('c2', C('mkc'))], globals_last=True)

# generated argument-passing programs (tools/gen_calls.py): g_000 .. g_047, also rendered to corpus/ga_NNN.mmm for the other checks
import os as _os
import sys as _sys
_sys.path.insert(0, _os.path.join(_os.path.dirname(_os.path.dirname(_os.path.abspath(__file__))), 'tools'))
import gen_calls as _gen_calls
P.update(_gen_calls.programs())

PROGRAMS = P
