"""C18 — generated Rust behaves like the VM (translation validation, bounded).

For each corpus program the real `Context::emit_rust` output (runtime scaffold template + generated functions) is compiled
to MIR by rustc (`-Zunpretty=mir`) and that MIR is executed symbolically by mirsym — the generated program is ordinary
Rust, so the same executor applies.  The same program's bytecode runs on the real VM code (mirsym).  All dsp input words are
symbolic over k steps; z3 decides equality of every output word.  rustc accepting the generated file is checked concretely.
"""
import hashlib
import os
import subprocess
import sys
import time
import z3

sys.path.insert(0, os.path.dirname(os.path.dirname(os.path.abspath(__file__))))
from checks import common, progcheck
from checks.report import Report
from checks.run_programs import run_jobs
from mirsym.mirparse import MirFile
from mirsym.layouts import Layouts
from mirsym.interp import Crate, Interp, Explorer, PanicReached, Unsupported, PathEnd
from mirsym.models import Models
from mirsym.smt import Smt, f2b, b2f
from mirsym.values import Sc, Ref, Agg, Slice, VecV, UNIT
from mirsym.vmdriver import VmRun

PID = 'C18'
GDIR = os.path.join(common.CACHE, 'c18')

HARNESS = '''
struct VerifHost { now: f64 }
impl MimiumHost for VerifHost {
    fn call_ext(&mut self, name: &str, _args: &[Word], _ret_words: usize) -> Result<Vec<Word>, String> {
        Err(format!("unexpected external call: {}", name))
    }
    fn current_time(&mut self) -> f64 { self.now }
    fn sample_rate(&mut self) -> f64 { 48_000.0 }
}
fn main() {
    let mut program = MimiumProgram::with_host(VerifHost { now: 0.0 });
    /*CALL_MAIN*/
    let inputs: Vec<Vec<u64>> = vec![/*INPUTS*/];
    for (k, row) in inputs.iter().enumerate() {
        program.host.now = k as f64;
        let out = program.call_dsp(row).unwrap();
        let words: Vec<String> = out.iter().map(|w| w.to_string()).collect();
        println!("{}", words.join(" "));
    }
}
'''


def gen_files(name, source):
    os.makedirs(GDIR, exist_ok=True)
    h = hashlib.sha1(source.encode()).hexdigest()[:12]
    rs = os.path.join(GDIR, '%s_%s.rs' % (name, h))
    mir = rs[:-3] + '.mir'
    if not os.path.exists(rs):
        open(rs, 'w').write(source)
    return rs, mir


def rustc_mir(rs, mir):
    """(ok, stderr tail): rustc must accept the generated file; the MIR dump is what mirsym executes"""
    if os.path.exists(mir) and os.path.getsize(mir) > 1000:
        return True, ''
    r = subprocess.run(['rustc', '+nightly', '--edition', '2024', '--crate-type', 'lib', '--crate-name', 'gen', '-Zunpretty=mir', '-C', 'overflow-checks=on',
                        '-C', 'debug-assertions=on', '-A', 'warnings', rs, '-o', mir + '.tmp'], capture_output=True, text=True, cwd=GDIR)
    if r.returncode != 0 or not os.path.exists(mir + '.tmp'):
        return False, r.stderr[-1500:]
    os.rename(mir + '.tmp', mir)
    return True, ''


_GEN = {}


def gen_crate(rs, mir):
    c = _GEN.get(mir)
    if c is None:
        L = Layouts()
        L.scan_text(open(rs).read(), rs)
        c = Crate([MirFile(mir)], L, '/')
        if len(_GEN) > 8:
            _GEN.clear()
        _GEN[mir] = c
    return c


class ExtDelegated(Exception):
    """the generated program handed an external function to the host: with the minimal host of the documentation
    (PanicHost / the repository's TestHost) call_dsp returns Err(..) -- a refusal at run time, not a wrong value"""

    def __init__(self, name):
        Exception.__init__(self, name)
        self.name = name


class RustRun(object):
    """the generated MimiumProgram<H> inside one path"""

    def __init__(self, it, now_ref):
        self.it = it
        self.now = now_ref
        run = self

        def current_time(it_, args):
            return it_.cast(run.now[0], 'f64', 'IntToFloat', None)

        def sample_rate(it_, args):
            return Sc('f64', f2b(48000.0))
        it.hooks['current_time'] = current_time
        it.hooks['sample_rate'] = sample_rate

        def on_call_ext(it_, name, args):
            tgt = args[0]
            host = it_.load((tgt.cont, tgt.key)) if type(tgt) is Ref else tgt
            if type(host) is Agg and host.ty == 'PanicHost':
                nm = args[1]
                raise ExtDelegated(getattr(nm, 's', None) or str(nm))
        it.observers['call_ext'] = on_call_ext
        self.on_alias = None

        load_name = [n for n in it.crate.mirs[0].names() if n.endswith('>::load')]
        self.load_name = load_name[0] if len(load_name) == 1 else None
        self.lemma_ok = {}
        self.lemmas = 0

        def real_load(it_, args):
            h = it_.hooks.pop('load')
            try:
                mir = it_.crate.mirs[0]
                return it_.call_body(mir, run.load_name, mir.get(run.load_name), args, None)
            finally:
                it_.hooks['load'] = h

        def lemma(it_, ms_ref, n):
            """solver-checked summary of the real MemoryStore::load body (run on its MIR, fresh symbolic word w, n live pointers):
            for every w that is not a live handle, load(w, 1) == Ok(vec![w]).  Checked once per n and per generated program."""
            if n in run.lemma_ok:
                return run.lemma_ok[n]
            w = z3.BitVec('lemma_w_%d' % n, 64)
            tag = z3.BitVecVal(1 << 61, 64)
            ms = it_.load((ms_ref.cont, ms_ref.key))
            mir = it_.crate.mirs[0]

            def path(sub_):
                sub_.smt.add(z3.Not(z3.And(z3.UGE(w, tag + 1), z3.ULE(w, tag + n))))
                r_ = sub_.call_body(mir, run.load_name, mir.get(run.load_name), [Ref([ms], 0), Sc('u64', w), Sc('usize', 1)], None)
                if r_.variant != 0 or len(r_.fields[0].buf) != 1:
                    return 'bad'
                v = r_.fields[0].buf[0].v
                if isinstance(v, int) or sub_.smt.check(v != w) != z3.unsat:
                    return 'bad'
                return 'ok'
            # a separate query context: the current path condition is untouched
            scratch = Smt(it_.smt.timeout_ms)
            sub = Interp(it_.crate, scratch, Models())
            ex = Explorer(scratch, 64)
            try:
                res = ex.explore(sub, path)
                good = bool(res) and all(x[0] == 'ok' and x[1] == 'ok' for x in res) and not ex.unsupported and not ex.findings and not ex.truncated
            except Exception:
                good = False
            run.lemma_ok[n] = good
            run.lemmas += 1
            return good

        def load_hook(it_, args):
            """MemoryStore::load(ptr, 1) returns the word itself when it is not a live memory handle (dynamic sniffing).  A word
            that depends on the inputs is never a genuine handle here (allocation order is concrete).  If it CAN be bit-identical
            to a live handle that is reported once (cause 'handle-aliasing') and then assumed away, so that other causes in the same
            program are still decided; under that assumption the call is replaced by its lemma-checked summary Ok(vec![ptr])."""
            if run.load_name is None or len(args) < 3 or type(args[1]) is not Sc or isinstance(args[1].v, int) or z3.is_bv_value(args[1].v):
                return real_load(it_, args)
            size = args[2].v if type(args[2]) is Sc else None
            if not (isinstance(size, int) and size == 1) and not (size is not None and z3.is_bv_value(size) and size.as_long() == 1):
                return real_load(it_, args)
            w = args[1].v
            ms = args[0]
            msv = it_.load((ms.cont, ms.key)) if type(ms) is Ref else ms
            if type(msv) is not Agg or len(msv.fields) != 2 or type(msv.fields[1]) is not VecV:
                raise Unsupported('MemoryStore layout changed (expected {slots, ptrs})')
            n = len(msv.fields[1].buf)
            if not lemma(it_, ms if type(ms) is Ref else Ref([msv], 0), n):
                return real_load(it_, args)
            if n > 0:
                tag = z3.BitVecVal(1 << 61, 64)
                alias = z3.And(z3.UGE(w, tag + 1), z3.ULE(w, tag + n))
                if run.on_alias is not None:
                    run.on_alias(it_, alias)
                it_.smt.add(z3.Not(alias))
            it_.models.used['SUMMARY MemoryStore::load(non-handle word, 1) == Ok(vec![word]) (lemma checked on the real body)'] = 1
            from mirsym.models import ok
            return ok(VecV([Sc('u64', w)]))
        if self.load_name is not None:
            it.hooks['load'] = load_hook
        host = Agg('PanicHost', None, [])
        self.prog = it.call('MimiumProgram::<PanicHost>::with_host', [host], None)
        self.pref = Ref([self.prog], 0)
        self.has_main = any(n.endswith('::call_main') for n in it.crate.mirs[0].names())

    def call_main(self):
        if self.has_main:
            r = self.it.call('MimiumProgram::<PanicHost>::call_main', [self.pref], None)
            if r.variant == 1:
                raise PanicReached('generated call_main returned Err', 'panic')

    def call_dsp(self, words):
        buf = list(words)
        r = self.it.call('MimiumProgram::<PanicHost>::call_dsp', [self.pref, Slice(buf, 0, len(buf))], None)
        if r.variant == 1:
            raise PanicReached('generated call_dsp returned Err', 'panic')
        return list(r.fields[0].buf)


class RustAnalysis(progcheck.ProgramAnalysis):
    def __init__(self, **kw):
        kw['backends'] = ('vm',)
        progcheck.ProgramAnalysis.__init__(self, **kw)
        self.result['backends'] = ['vm', 'rust']

    def run(self):
        t0 = time.time()
        r = self.result
        try:
            self.cj = common.compile_program(self.path)
            bc, ru = self.cj['bytecode'], self.cj['rust']
            r['accept'] = dict(bytecode=bc['ok'], rust=ru['ok'], rust_errors=ru['errors'][:2], rust_panic=ru['panic'])
            if not bc['ok'] or bc['panic']:
                r['status'] = 'rejected'
                return r
            if ru['panic']:
                r['status'] = 'rust_panic'
                return r
            if not ru['ok']:
                r['status'] = 'refused'        # documented behaviour for programs outside the subset
                return r
            pj = bc['program']
            if pj.get('io') is None or pj.get('dsp_index') is None:
                r['status'] = 'no_dsp_io'
                return r
            self.pj = pj
            rs, mir = gen_files(self.name, ru['source'])
            okc, err = rustc_mir(rs, mir)
            r['rs'] = rs
            if not okc:
                r['status'] = 'rustc_rejects'
                r['notes'].append(err)
                return r
            self.gen = gen_crate(rs, mir)
            self.explore2()
        except Exception as e:
            import traceback
            r['status'] = 'error'
            r['notes'].append('exception: %r\n%s' % (e, traceback.format_exc()[-1500:]))
        r['wall_s'] = round(time.time() - t0, 2)
        return r

    def explore2(self):
        r = self.result
        smt = Smt(self.query_timeout_ms)
        it_vm = Interp(self.crate, smt, Models())
        it_rs = Interp(self.gen, smt, Models())
        ex = Explorer(smt, self.max_paths)
        deadline = time.time() + self.time_budget_s
        it_vm.deadline = deadline
        it_rs.deadline = deadline
        an = self

        def path(it):
            if time.time() > deadline:
                raise Unsupported('time budget exhausted')
            if len(r['divergences']) >= 2:
                raise PathEnd()
            # the second interpreter shares the path bookkeeping of the first
            it_rs.prefix, it_rs.work, it_rs.decisions, it_rs.stack, it_rs.steps = it.prefix, it.work, it.decisions, [], 0
            vm = VmRun(it, an.pj)
            vm.run_main()
            now = [Sc('u64', 0)]
            rr = RustRun(it_rs, now)
            cur = [0]

            def on_alias(it_, alias):
                if r.get('alias') is not None or r.get('alias_checks', 0) >= 40:
                    return
                r['alias_checks'] = r.get('alias_checks', 0) + 1
                if it_.smt.check(alias) == z3.sat:
                    r['alias'] = dict(step=cur[0], what='an input-dependent word passed to MemoryStore::load can equal a live memory handle', inputs=an.model_inputs(it_.smt.model(), cur[0], vm.n_in))
            rr.on_alias = on_alias
            try:
                rr.call_main()
            except ExtDelegated as e:
                r.setdefault('delegated', []).append(e.name)
                raise PathEnd()
            n_in = vm.n_in
            for k in range(an.steps):
                ins = [Sc('u64', z3.BitVec('in_%d_%d' % (k, c), 64)) for c in range(n_in)]
                vm.now[0] = Sc('u64', k)
                now[0] = Sc('u64', k)
                cur[0] = k
                vm.set_input(ins)
                _, vo = vm.run_dsp()
                try:
                    ro = rr.call_dsp(ins)
                except ExtDelegated as e:
                    if e.name not in r.setdefault('delegated', []):
                        r['delegated'].append(e.name)
                    raise PathEnd()
                if len(vo) != len(ro):
                    raise PanicReached('generated dsp returns %d words, the VM %d' % (len(ro), len(vo)), 'width')
                for c, (a, b) in enumerate(zip(vo, ro)):
                    r['checks'] += 1
                    cond = progcheck.words_equal_cond(it.smt, a, b)
                    if cond is None:
                        r['checks_trivial'] += 1
                        continue
                    cond = z3.simplify(cond)
                    if z3.is_true(cond):
                        r['checks_trivial'] += 1
                        continue
                    res = it.smt.check(z3.Not(cond))
                    if res == z3.unsat:
                        continue
                    if res == z3.unknown:
                        r['inconclusive'].append('step %d out[%d]: solver unknown' % (k, c))
                        continue
                    m = it.smt.model()
                    r['divergences'].append(dict(step=k, what='out[%d] differs' % c, inputs=an.model_inputs(m, k, n_in)))
                    raise PathEnd()
            return None
        res = ex.explore(it_vm, path)
        r['paths'] = len(res)
        r['truncated'] = ex.truncated
        for f in ex.findings:
            self.steps_for_model = self.steps
            self.record_panic(f)
        for msg, where in ex.unsupported:
            r['unsupported'].append('%s @ %s' % (msg, where))
        r['solver'] = smt.stats.as_dict()
        r['functions'] = dict(it_vm.functions_used)
        r['functions'].update({'generated::' + k: v for k, v in it_rs.functions_used.items()})
        r['stubs'] = dict(it_vm.models.used)
        for k, v in it_rs.models.used.items():
            r['stubs'][k] = r['stubs'].get(k, 0) + v
        r['stubs']['STUB MimiumHost::current_time / sample_rate (driver clock)'] = 1


def confirm(path, rs, d, steps):
    """build the generated program with a small main() and compare with the real VM"""
    src = open(rs).read()
    rows = d.get('inputs') or []
    while len(rows) < d['step'] + 1:
        rows.append([])
    body = HARNESS.replace('/*INPUTS*/', ', '.join('vec![%s]' % ', '.join('%du64' % w for w in row) for row in rows))
    body = body.replace('/*CALL_MAIN*/', 'program.call_main().unwrap();' if 'pub fn call_main' in src else '')
    exe_src = rs[:-3] + '.witness.rs'
    exe = rs[:-3] + '.witness'
    open(exe_src, 'w').write(src + body)
    c = subprocess.run(['rustc', '--edition=2024', '--crate-name', 'witness', '-A', 'warnings', exe_src, '-o', exe], capture_output=True, text=True, cwd=GDIR)
    detail = {}
    if c.returncode != 0:
        detail['rustc'] = c.stderr[-800:]
        return True, detail     # generated Rust that fails to build is itself a violation
    run = subprocess.run([exe], capture_output=True, text=True, timeout=20)
    detail['rust_stdout'] = run.stdout[-500:]
    detail['rust_rc'] = run.returncode
    rust_out = [[int(x) for x in ln.split()] for ln in run.stdout.strip().split('\n') if ln.strip()] if run.returncode == 0 else None
    vm = common.replay(dict(src_path=path, backend='vm', steps=len(rows), inputs=rows, timeout_s=20)).get('vm', {})
    detail['vm_outputs'] = vm.get('outputs')
    detail['vm_panic'] = vm.get('panic')
    for f in (exe_src, exe):
        try:
            os.remove(f)
        except OSError:
            pass
    if rust_out is None:
        return not bool(vm.get('panic')), detail
    vo = vm.get('outputs') or []
    for k in range(min(len(vo), len(rust_out))):
        if len(vo[k]) != len(rust_out[k]) or any(not progcheck.same_word(a, b) for a, b in zip(vo[k], rust_out[k])):
            detail['first_difference'] = k
            return True, detail
    return False, detail


def run(tier, seed):
    quick = tier == 'quick'
    rep = Report(PID, tier, seed, 'translation_validation')
    common.build_mmdump()
    mirs = common.prog_mirs()
    groups = ['op', 'st', 'ct', 'cl', 'fi', 'gn', 'ga'] + ([] if quick else ['fx'])
    files = common.corpus_files(groups, tier, seed)
    steps = 3 if quick else 6
    budget = 90 if quick else 400
    jobs = [('analysis', dict(cls=('checks.c18', 'RustAnalysis'), path=f, mir_paths=mirs, steps=steps, mode='bmc',
                              query_timeout_ms=5000 if quick else 30000, time_budget_s=budget, seed=seed)) for f in files]
    res = run_jobs(jobs)
    refused, nchecks, delegated, aliasing = [], 0, {}, []
    for r in res:
        st = r.get('status')
        if st == 'refused':
            refused.append(r['program'])
            rep.skipped.append('%s: refused by emit_rust (%s)' % (r['program'], (r['accept'].get('rust_errors') or [''])[0][:80]))
            continue
        if st == 'rust_panic':
            rep.finding('emit_rust-panics:' + r['program'], dict(program=r['program'], msg='emit_rust panics instead of refusing with an error', accept=r.get('accept')))
            continue
        if st == 'rustc_rejects':
            rep.finding('rustc-rejects:' + r['program'], dict(program=r['program'], msg='emitted Rust does not compile', rustc=(r.get('notes') or [''])[0][-600:]))
            continue
        if r.get('delegated'):
            delegated[r['program']] = r['delegated']
            rep.skipped.append('%s: external function(s) %s are handed to the host; the minimal host refuses them at run time (Err from call_dsp)' % (r['program'], ', '.join(r['delegated'])))
        if not rep.absorb(r):
            continue
        nchecks += r.get('checks', 0)
        path = r.get('path')
        done = False
        al = r.get('alias')
        if al is not None:
            rep.replays += 1
            try:
                ok, detail = confirm(path, r['rs'], al, r['steps'])
            except Exception as e:
                ok, detail = False, dict(error=repr(e))
            if ok:
                aliasing.append(r['program'])
                rep.finding('handle-aliasing', dict(program=r['program'], step=al['step'], msg=al['what'], model=dict(inputs=al['inputs']), replay=detail))
        for d in r.get('divergences', []):
            if done:
                break
            rep.replays += 1
            try:
                ok, detail = confirm(path, r['rs'], d, r['steps'])
            except Exception as e:
                ok, detail = False, dict(error=repr(e))
            rec = dict(program=r['program'], step=d['step'], msg=d['what'], model=dict(inputs=d['inputs']), replay=detail)
            if ok:
                done = True
                rep.finding(r['program'], rec)
            else:
                rep.inconclusive.append('%s: "%s" has a model that the compiled generated program does not exhibit' % (r['program'], d['what']))
        for d in r.get('panics', []):
            if done:
                break
            d.setdefault('step', r['steps'] - 1)
            rep.replays += 1
            try:
                ok, detail = confirm(path, r['rs'], d, r['steps'])
            except Exception as e:
                ok, detail = False, dict(error=repr(e))
            if ok:
                done = True
                rep.finding(r['program'], dict(program=r['program'], msg='panic / Err on one side: ' + d['msg'], where=d.get('where'), model=dict(inputs=d.get('inputs')), replay=detail))
            else:
                rep.inconclusive.append('%s: obligation "%s" did not reproduce (VM and compiled generated program agree on the witness)' % (r['program'], d['msg'][:80]))
        if len(rep.samples) < 8:
            rep.samples.append(dict(program=r['program'], steps=r['steps'], feasible_paths=r['paths'], outputs_compared=r.get('checks'), decided_syntactically=r.get('checks_trivial')))
    cov = dict(programs=max(1, len(rep.programs)), disagreements_checked=rep.replays, outputs_compared=nchecks, refused_by_emit_rust=refused, refused_at_run_time_by_host=delegated, programs_with_confirmed_handle_aliasing=aliasing,
               bounds='corpus groups %s; BMC %d dsp steps from the initial state, all input words symbolic; rustc accepts each emitted file (checked by producing its MIR)' % (groups, steps))
    assumptions = ['the generated program is driven through MimiumProgram::with_host / call_main / call_dsp with a host whose clock is the sample index (like the repository\'s TestHost); current_time / sample_rate are stubbed',
                   'rustc nightly MIR of the emitted file (edition 2024, overflow checks on) is the analysed artefact; witnesses are re-run on a stable-rustc build of the same file',
                   'program dimension = finite corpus; state words are not compared (the scaffold keeps per-function storages)']
    return rep.finish(cov, assumptions)
