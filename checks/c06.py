"""C06 / C07 — hot swap through the real `Machine::new_resume` (bounded model checking).

mirsym runs the MIR of Machine::new_resume (state_tree::build_state_storage_patch_plan / apply_state_storage_patch_plan,
Vec clones, execute_main of the new machine) on a machine whose dsp state words are ALL SYMBOLIC (any state a run could
have left), swapping to a second compilation of the same source (C06) or of an edited source (C07).
"""
import os
import sys
import time
import z3

sys.path.insert(0, os.path.dirname(os.path.dirname(os.path.abspath(__file__))))
from checks import common, progcheck
from checks.report import Report
from checks.run_programs import run_jobs
from mirsym.interp import PanicReached, Unsupported, Explorer, PathEnd
from mirsym.values import Sc, Ref, Agg, VecV, MapV, Slice
from mirsym.models import some, none
from mirsym import vmdriver
from mirsym.vmdriver import VmRun, skel_total

PID = 'C06'


class SwapViolation(PanicReached):
    def __init__(self, msg):
        PanicReached.__init__(self, msg, 'swap')


def link_functions_stub(vmrun_new):
    """STUB of Machine::link_functions for the new machine: sizes global_vals from prog.global_vals and maps every external
    function index to the closure of the same name (string interner / plugin lookup are not encodable)."""
    def hook(it, args):
        m = args[0].cont[args[0].key]
        F = vmdriver.MACHINE_FIELDS
        prog = m.fields[F.index('prog')]
        gsize = sum(it.concretize(w.fields[0]) for w in prog.fields[vmdriver.PROGRAM_FIELDS.index('global_vals')].buf)
        m.fields[F.index('global_vals')] = VecV([Sc('u64', 0) for _ in range(gsize)])
        fn_map = MapV('map')
        e_ext = it.layouts.find_enum('ExtFnIdx')
        names = [x.fields[0].s for x in prog.fields[vmdriver.PROGRAM_FIELDS.index('ext_fun_table')].buf]
        table = m.fields[F.index('ext_cls_table')].buf
        have = {}
        for j, ent in enumerate(table):
            have[getattr(ent.fields[0], 'what', '')] = j
        for i, nm in enumerate(names):
            j = have.get('Symbol:' + nm)
            if j is None:
                from mirsym.models import RcV, RefCellV
                from mirsym.values import Opaque
                table.append(Agg('tuple', None, [Opaque('Symbol:' + nm), RcV(RefCellV(vmrun_new.ext_closure(nm)))]))
                j = len(table) - 1
            fn_map.items.append((Sc('usize', i), Agg(it.enum_tag(e_ext), e_ext.variant_index('Cls'), [Sc('usize', j)])))
        m.fields[F.index('fn_map')] = fn_map
        from mirsym.values import UNIT
        return UNIT
    return hook


class SwapAnalysis(progcheck.ProgramAnalysis):
    """old program = self.path; new program = new_path (same file for C06)"""

    def __init__(self, new_path=None, pre_steps=0, fresh=False, voices_kept=None, voices_new=None, voices_inner=None, backend='vm', variant='inprocess', **kw):
        progcheck.ProgramAnalysis.__init__(self, **kw)
        self.backend = backend              # 'vm': <VmDspRuntime as DspRuntime>::try_hot_swap; 'wasm': the CLI payload preparation + WasmDspRuntime::try_hot_swap
        self.variant = variant              # wasm only: how the CLI calls prepare_hot_swap_wasm_payload ('inprocess' | 'subprocess')
        self.new_path = new_path or self.path
        self.pre_steps = pre_steps
        # fresh: the swap happens BEFORE the first sample (split point n = 0): history mode with zero samples, i.e. the state the
        # runtime really has after main (on WASM the state vector grows lazily and is still short / empty)
        self.fresh = fresh
        self.voices_kept = voices_kept      # [(old child index, new child index)] untouched voices (C07)
        self.voices_new = voices_new        # [new child index] inserted voices
        self.voices_inner = voices_inner    # [(old child index, new child index)] voices edited INSIDE: their untouched call sites continue
        self.result['new_program'] = os.path.basename(self.new_path)[:-4]
        self.result['backends'] = [backend]
        self.result['backend'] = backend
        self.result['variant'] = variant if backend == 'wasm' else None

    def explore(self):
        r = self.result
        cj2 = common.compile_program(self.new_path)
        if not (cj2['bytecode']['ok'] and cj2['bytecode']['panic'] is None):
            r['status'] = 'rejected'
            return
        pj_old, pj_new = self.pj, cj2['bytecode']['program']
        if pj_new.get('dsp_index') is None or pj_new.get('io') is None:
            r['status'] = 'no_dsp_io'
            return
        skel_old = self.dsp_skel
        skel_new = pj_new['fns'][pj_new['dsp_index']]['state_skeleton']
        size_old, size_new = skel_total(skel_old), skel_total(skel_new)
        # small states: every word symbolic.  Large states (long delay lines): only a sparse set of words is symbolic -- the first and
        # last words, the words around every multiple of 2^16 (where a narrow size type would wrap) and the ring cursors -- the rest
        # carries distinct concrete patterns, so that a word that is lost, moved or zeroed is still seen (stated in the evidence)
        self.sparse = None
        if size_old > 96 or size_new > 96:
            if max(size_old, size_new) > 400000:
                r['status'] = 'skipped_large_state'
                return
            S = set(range(min(6, size_old))) | set(range(max(0, size_old - 6), size_old))
            for k in range(1, size_old // 65536 + 1):
                S |= set(i for i in range(k * 65536 - 3, k * 65536 + 4) if 0 <= i < size_old)
            for (addr, size, kind, ln) in self.leaves:
                if kind == 'Delay':
                    S -= {addr, addr + 1}       # ring cursors stay concrete: `cursor % 70000` on a symbolic word stalls the bit-blaster
            self.sparse = S
            r['sparse_symbolic_words'] = len(S)
        same_src = (self.new_path == self.path)
        self.n_out_pair = (pj_old['io']['output'], pj_new['io']['output'])
        smt, it = self.new_interp()
        self.smt, self.it = smt, it
        ex = Explorer(smt, self.max_paths)
        deadline = time.time() + self.time_budget_s
        it.deadline = deadline
        an = self

        def child_ranges(sk):
            out, off = [], 0
            for c in sk['children']:
                n = skel_total(c)
                out.append((off, n))
                off += n
            return out

        def site_list(sk, base=0, depth=0, out=None):
            """leaves of a voice with (address relative to the voice, words, signature)"""
            if out is None:
                out = []
            if sk.get('children') is not None and sk.get('k', 'FnCall') == 'FnCall':
                off = base
                for c in sk['children']:
                    site_list(c, off, depth + 1, out)
                    off += skel_total(c)
            else:
                out.append((base, skel_total(sk), (sk.get('k'), skel_total(sk), depth)))
            return out

        def path(it):
            if time.time() > deadline:
                raise Unsupported('time budget exhausted')
            # arbitrary pre-swap state (delay indices inside their ring, as every run leaves them)
            if an.sparse is None:
                ws = [z3.BitVec('s_%d' % i, 64) for i in range(size_old)]
            else:
                ws = [z3.BitVec('s_%d' % i, 64) if i in an.sparse else an.concrete_word(i) for i in range(size_old)]
            for (addr, size, kind, ln) in an.leaves:
                if kind == 'Delay' and ln > 0 and not isinstance(ws[addr], int):
                    it.smt.add(z3.ULT(ws[addr], ln))
                    it.smt.add(z3.ULT(ws[addr + 1], ln))
            if an.backend == 'wasm':
                return path_wasm(it, ws)
            old = VmRun(it, pj_old)
            old.run_main()
            if an.pre_steps or an.fresh:
                # history mode (programs whose state words are HANDLES -- array-valued `self` -- cannot start from arbitrary words):
                # n real samples with symbolic inputs from the initial state, then the swap
                for k in range(an.pre_steps):
                    old.now[0] = Sc('u64', k)
                    old.set_input([Sc('u64', z3.BitVec('pre_%d_%d' % (k, c), 64)) for c in range(pj_old['io']['input'])])
                    old.run_dsp()
            else:
                old.state_words()[:] = [Sc('u64', w) for w in ws]
            snapshot = list(old.state_words())
            old_globals = list(old.field('global_vals').buf)
            # the runtime that is swapped shares the machine with `old`, which keeps running as the uninterrupted oracle;
            # <VmDspRuntime as DspRuntime>::try_hot_swap (MIR): dsp_i, zeroed input registers, vm = vm.new_resume(prog), output cache
            newrun = VmRun(it, pj_new)          # builds the Program value and the external closures of the new program
            newrun.rt = Agg(old.rt.ty, None, [VecV(list(f.buf)) if type(f) is VecV else f for f in old.rt.fields])
            newrun.rtref = Ref([newrun.rt], 0)
            it.hooks['link_functions'] = link_functions_stub(newrun)
            try:
                swapped = newrun.try_hot_swap(newrun.prog)
            finally:
                it.hooks.pop('link_functions', None)
            r['checks'] += 1
            if not (isinstance(swapped.v, int) and swapped.v == 1):
                raise SwapViolation('try_hot_swap refused the new program (returned %r)' % (swapped.v,))
            if newrun.machine is old.machine:
                raise SwapViolation('try_hot_swap left the old machine in place')
            dsp_i_new = newrun.rt.fields[it.layouts.find_struct('VmDspRuntime').fields.index('dsp_i')]
            if not (isinstance(dsp_i_new.v, int) and dsp_i_new.v == pj_new['dsp_index']):
                raise SwapViolation('dsp function index after the swap is %r, the new program has dsp at %r' % (dsp_i_new.v, pj_new['dsp_index']))
            nstate = newrun.state_words()
            r['checks'] += 1
            if len(nstate) != size_new:
                raise SwapViolation('state storage after the swap has %d words, the new layout has %d' % (len(nstate), size_new))
            if isinstance(newrun.state_pos().v, int) and newrun.state_pos().v != 0:
                raise SwapViolation('state cursor after the swap is %s' % newrun.state_pos().v)
            judge_state(it, nstate, snapshot)
            if same_src:
                ng = newrun.field('global_vals').buf
                if len(ng) != len(old_globals):
                    raise SwapViolation('global storage size changed')
                for i, (a, b) in enumerate(zip(ng, old_globals)):
                    an.require_equal(it, a, b, 'global word %d differs after the swap' % i)
            # the next sample: same transition as the un-swapped machine (C06) / untouched channels continue (C07)
            n_in_o, n_in_n = pj_old['io']['input'], pj_new['io']['input']
            ins = [Sc('u64', z3.BitVec('in_0_%d' % c, 64)) for c in range(max(n_in_o, n_in_n))]
            now = Sc('u64', z3.BitVec('now0', 64)) if not (an.pre_steps or an.fresh) else Sc('u64', an.pre_steps)
            if not (an.pre_steps or an.fresh):
                it.smt.add(z3.ULT(now.v, 1 << 52))
            old.now[0] = now
            newrun.now[0] = now
            old.set_input(ins[:n_in_o])
            _, o_old = old.run_dsp()
            newrun.set_input(ins[:n_in_n])
            _, o_new = newrun.run_dsp()
            judge_step(it, o_old, o_new, old.state_words(), newrun.state_words())
            return None

        def judge_state(it, nstate, snapshot):
            """the state words right after the swap (nstate: the new storage; words beyond its length read as zero)"""
            def nw(i):
                return nstate[i] if i < len(nstate) else Sc('u64', 0)
            if same_src:
                # C06: nothing may change
                for i in range(min(size_old, len(snapshot)) if (an.pre_steps or an.fresh) else size_old):
                    an.require_equal(it, nw(i), snapshot[i], 'state word %d changed by swapping to the same program' % i)
                return
            ro, rn = child_ranges(skel_old), child_ranges(skel_new)
            for (oi, ni) in an.voices_kept or []:
                (ao, so), (a_n, sn) = ro[oi], rn[ni]
                if so != sn:
                    raise SwapViolation('untouched voice changed its state size (%d -> %d): edit script inconsistent' % (so, sn))
                for k in range(so):
                    an.require_equal(it, nw(a_n + k), snapshot[ao + k], 'untouched voice old#%d -> new#%d lost state word %d' % (oi, ni, k))
            for (oi, ni) in an.voices_inner or []:
                # call sites whose (kind, size, depth) occurs exactly once in the old and once in the new version of the voice
                # are the untouched ones (the scripts only use voices whose sites are pairwise distinguishable)
                so_, sn_ = site_list(skel_old['children'][oi]), site_list(skel_new['children'][ni])
                for (ra, words, sig) in so_:
                    mo = [x for x in so_ if x[2] == sig]
                    mn = [x for x in sn_ if x[2] == sig]
                    if len(mo) == 1 and len(mn) == 1:
                        for k in range(words):
                            an.require_equal(it, nw(rn[ni][0] + mn[0][0] + k), snapshot[ro[oi][0] + ra + k],
                                             'untouched call site %s inside edited voice old#%d -> new#%d lost state word %d' % (sig[0], oi, ni, k))
            for ni in an.voices_new or []:
                a_n, sn = rn[ni]
                for k in range(sn):
                    an.require_equal(it, nw(a_n + k), Sc('u64', 0), 'new voice #%d does not start from zero (word %d)' % (ni, k))

        def judge_step(it, o_old, o_new, st_old, st_new):
            if same_src:
                if len(o_old) != len(o_new):
                    raise SwapViolation('output width changed')
                for c, (a, b) in enumerate(zip(o_old, o_new)):
                    an.require_equal(it, b, a, 'first sample after the swap differs from the uninterrupted run (channel %d)' % c)
                n = max(len(st_old), len(st_new))
                for i in range(n):
                    a = st_old[i] if i < len(st_old) else Sc('u64', 0)
                    b = st_new[i] if i < len(st_new) else Sc('u64', 0)
                    an.require_equal(it, b, a, 'state word %d differs one sample after the swap' % i)
            else:
                for (oi, ni) in an.voices_kept or []:
                    if oi < len(o_old) and ni < len(o_new):
                        an.require_equal(it, o_new[ni], o_old[oi], 'output of untouched voice old#%d -> new#%d differs from the uninterrupted run' % (oi, ni))

        def path_wasm(it, ws):
            """WASM runtime: the CLI prepares the payload off the audio thread (FileRunner::prepare_hot_swap_wasm_payload:
            prewarm = fresh engine + run main, patch plan from the remembered skeleton), the audio thread commits it with
            <WasmDspRuntime as DspRuntime>::try_hot_swap.  All of it is the MIR of the real functions; stubs: WasmEngine::new /
            load_module (wasmtime compile + instantiate -> a fresh wasmsym instance of the NEW module) and the WasmModule surface."""
            from wasmsym.driver import WasmRun, ModuleV, FuncV, _struct, load_module
            from wasmsym.exec import Instance
            from wasmsym.hostwasm import Host
            from mirsym.models import ok
            from mirsym.values import Opaque, UNIT
            from mirsym.vmdriver import skel_value
            wj_old, wj_new = an.cj['wasm'], cj2['wasm']
            wold = WasmRun(it, wj_old)
            wold.run_main()
            n_in_pre = wj_old['io']['input'] if wj_old.get('io') else 0
            if an.pre_steps or an.fresh:
                for k in range(an.pre_steps):
                    wold.set_input([Sc('u64', z3.BitVec('pre_%d_%d' % (k, c), 64)) for c in range(n_in_pre)])
                    wold.run_dsp(Sc('u64', k))
            else:
                wold.host.state_words()[:] = [Sc('u64', w) for w in ws]
            snapshot = list(wold.host.state_words())
            # The uninterrupted oracle is the old engine as it was BEFORE the swap: try_hot_swap gets `&mut` access to the retiring
            # engine too, and a defect there (e.g. copying run-time parameters in the wrong direction) must not drag the oracle
            # along.  Its host-side RuntimeState is restored from this snapshot before the oracle runs.
            from mirsym.values import clone_val as _clone_val
            rs_before = [_clone_val(f) for f in wold.host.rs.fields]
            # the uninterrupted oracle keeps the old engine (try_hot_swap moves it to the retire channel, it is not dropped)
            worc = WasmRun.__new__(WasmRun)
            worc.__dict__.update(wold.__dict__)
            worc.rt = Agg(wold.rt.ty, None, [VecV(list(f.buf)) if type(f) is VecV else f for f in wold.rt.fields])
            worc.rtref = Ref([worc.rt], 0)

            def eng_new(it_, args, fr, callee):
                return ok(_struct(it, 'WasmEngine', runtime=Opaque('WasmRuntime'), current_module=none(), dsp_func=none()))

            def load_mod(it_, args, fr, callee):
                e = args[0]
                while type(e) is Ref:
                    e = e.cont[e.key]
                m = load_module(wj_new['wat'])
                h = Host(it, 48000.0)
                mv = ModuleV(Instance(m, it, h), h, m)
                fs = it.layouts.find_struct('WasmEngine').fields
                e.fields[fs.index('current_module')] = some(mv)
                e.fields[fs.index('dsp_func')] = some(FuncV('dsp')) if 'dsp' in m.exports else none()
                return ok(UNIT)
            it.models.extra['WasmEngine::new'] = eng_new
            it.models.extra['WasmEngine::load_module'] = load_mod
            it.models.note('STUB WasmEngine::new / load_module (wasmtime compile + instantiate): fresh wasmsym instance of the new module')
            sk_old_v = some(skel_value(it, wj_old['dsp_state_skeleton'])) if wj_old.get('dsp_state_skeleton') is not None else none()
            oldprog = _struct(it, 'OldWasmProgram', dsp_state_skeleton=sk_old_v, ext_fns=VecV([]), plugin_fns=none())
            runner = _struct(it, 'FileRunner', tx_compiler=Opaque('Sender<CompileRequest>'), rx_compiler=Opaque('Receiver<Response>'), tx_prog=none(),
                             fullpath=Opaque('PathBuf'), use_wasm=Sc('bool', 1), old_program=it.call('std::sync::Mutex::new', [some(oldprog)], None),
                             retired_engine_receiver=none())
            if an.variant == 'subprocess':
                # recompile_file (native, WASM backend): try_compile_wasm_in_subprocess hands back bytes only
                pargs = [Ref([runner], 0), VecV([]), none(), none()]
            else:
                # recompile_file_inprocess: Response::WasmModule(output)
                sk_new_v = some(skel_value(it, wj_new['dsp_state_skeleton'])) if wj_new.get('dsp_state_skeleton') is not None else none()
                pargs = [Ref([runner], 0), VecV([]), sk_new_v, some(Slice([], 0, 0))]
            pl = it.call('FileRunner::prepare_hot_swap_wasm_payload', pargs, None)
            r['checks'] += 1
            if pl.variant != 0:
                raise SwapViolation('prepare_hot_swap_wasm_payload failed for a program that compiles: %r' % (pl.fields[0],))
            swapped = wold.try_hot_swap(pl.fields[0])
            if not (isinstance(swapped.v, int) and swapped.v == 1):
                raise SwapViolation('try_hot_swap refused the new module (returned %r)' % (swapped.v,))
            nhost = wold.cur_host()
            if nhost is worc.cur_host():
                raise SwapViolation('try_hot_swap left the old engine in place')
            nstate = list(nhost.state_words())
            if len(nstate) > size_new:
                raise SwapViolation('state storage after the swap has %d words, the new layout has %d' % (len(nstate), size_new))
            if isinstance(nhost.state_pos().v, int) and nhost.state_pos().v != 0:
                raise SwapViolation('state cursor after the swap is %s' % nhost.state_pos().v)
            an.cur_swap_verbatim = (not same_src) and len(nstate) == len(snapshot) and all(x is y or (isinstance(x.v, int) and x.v == y.v) or (not isinstance(x.v, int) and not isinstance(y.v, int) and x.v.eq(y.v)) for x, y in zip(nstate, snapshot))
            judge_state(it, nstate, snapshot)
            n_in_o = wj_old['io']['input'] if wj_old.get('io') else 0
            n_in_n = wj_new['io']['input'] if wj_new.get('io') else 0
            ins = [Sc('u64', z3.BitVec('in_0_%d' % c, 64)) for c in range(max(n_in_o, n_in_n))]
            now = Sc('u64', z3.BitVec('now0', 64)) if not (an.pre_steps or an.fresh) else Sc('u64', an.pre_steps)
            if not (an.pre_steps or an.fresh):
                it.smt.add(z3.ULT(now.v, 1 << 52))
            for _i in range(1, len(rs_before)):          # field 0 is the handle of the instance's linear memory
                wold.host.rs.fields[_i] = rs_before[_i]
            worc.set_input(ins[:n_in_o])
            _, o_old = worc.run_dsp(now)
            wold.set_input(ins[:n_in_n])
            _, o_new = wold.run_dsp(now)
            judge_step(it, o_old, o_new, worc.cur_host().state_words(), wold.cur_host().state_words())
            return None

        res = ex.explore(it, path)
        r['paths'] = len(res)
        r['truncated'] = ex.truncated
        for f in ex.findings:
            self.record_panic(f)
        for msg, where in ex.unsupported:
            r['unsupported'].append('%s @ %s' % (msg, where))
        r['solver'] = smt.stats.as_dict()
        r['functions'] = dict(it.functions_used)
        r['stubs'] = dict(it.models.used)
        r['stubs'].update({'STUB ' + k: v for k, v in it.stubs_used.items()})

    def concrete_word(self, i):
        """distinct, non-zero, finite f64 pattern per state word (sparse mode); ring cursors: a small in-range index"""
        for (addr, size, kind, ln) in self.leaves:
            if kind == 'Delay' and i in (addr, addr + 1):
                return 5 % max(1, ln or 1)
        return 0x4050000000000000 + (i + 1) * 0x1000

    def record_panic(self, f):
        progcheck.ProgramAnalysis.record_panic(self, f)
        if self.result['panics']:
            self.result['panics'][-1]['backend'] = self.backend
            self.result['panics'][-1]['variant'] = self.variant if self.backend == 'wasm' else None
            self.result['panics'][-1]['swap_verbatim'] = bool(getattr(self, 'cur_swap_verbatim', False))
            self.result['panics'][-1]['n_out'] = getattr(self, 'n_out_pair', None)
            self.result['panics'][-1]['pre_steps'] = self.pre_steps
            self.result['panics'][-1]['fresh'] = self.fresh
            if (self.pre_steps or self.fresh) and f.model is not None:
                n_in = self.pj['io']['input'] if self.pj.get('io') else 0
                try:
                    self.result['panics'][-1]['pre_inputs'] = [[f.model.eval(z3.BitVec('pre_%d_%d' % (k, c), 64), model_completion=True).as_long() for c in range(n_in)]
                                                              for k in range(self.pre_steps)]
                except Exception:
                    self.result['panics'][-1]['pre_inputs'] = [[0] * n_in for _ in range(self.pre_steps)]
        if getattr(self, 'sparse', None) is not None and self.result['panics']:
            d = self.result['panics'][-1]
            init = d.get('init_state')
            if init is None:
                init = [0] * self.state_size
                for (addr, size, kind, ln) in self.leaves:
                    pass
            d['init_state'] = [init[i] if i in self.sparse else self.concrete_word(i) for i in range(self.state_size)]
            d.setdefault('inputs', [[0] * (self.pj['io']['input'] if self.pj.get('io') else 0)])
            d.setdefault('now0', 0)

    def require_equal(self, it, a, b, msg):
        self.result['checks'] += 1
        c = progcheck.words_equal_cond(it.smt, a, b)
        if c is None:
            self.result['checks_trivial'] += 1
            return
        c = z3.simplify(c)
        if z3.is_true(c):
            self.result['checks_trivial'] += 1
            return
        res = it.smt.check(z3.Not(c))
        if res == z3.unsat:
            return
        if res == z3.unknown:
            self.result['inconclusive'].append('%s: solver unknown' % msg)
            return
        e = SwapViolation(msg)
        e.model = it.smt.model()
        raise e


def confirm_swap(old_path, new_path, d, kept, new_voices, skel_ranges, backend='vm', variant='inprocess'):
    """replay on the real runtime (VM, or WASM with the payload prepared the way the CLI does it): 1 sample from the witness state
    with the swap in front of it, compared with the uninterrupted run"""
    init = d.get('init_state')
    ins = d.get('inputs') or [[]]
    row = ins[0] if ins else []
    pre = d.get('pre_steps') or 0
    if pre or d.get('fresh'):
        # history mode: `pre` real samples from the initial state, the swap, one more sample
        rows = list(d.get('pre_inputs') or [[] for _ in range(pre)]) + [row]
        base = dict(src_path=old_path, backend=backend, steps=pre + 1, inputs=rows, now_start=0, timeout_s=20)
    else:
        base = dict(src_path=old_path, backend=backend, steps=1, inputs=[row], init_state=init, now_start=d.get('now0', 0), timeout_s=20)
    out = {}
    try:
        plain = common.replay(dict(base))[backend]
        swapped = common.replay(dict(base, swaps=[dict(at_step=pre, src_path=new_path, variant=variant)]))[backend]
    except Exception as e:
        return False, dict(error=repr(e))
    if pre or d.get('fresh'):
        # compare the sample after the swap only
        for t in (plain, swapped):
            for k in ('outputs', 'state_after'):
                if t.get(k):
                    t[k] = t[k][pre:]
    out['plain'] = dict(outputs=plain.get('outputs'), state=plain.get('state_after'), panic=plain.get('panic'))
    out['swapped'] = dict(outputs=swapped.get('outputs'), state=swapped.get('state_after'), panic=swapped.get('panic'), swaps=swapped.get('swaps'))
    if swapped.get('panic') or swapped.get('crash'):
        return True, out
    po, so = plain.get('outputs') or [[]], swapped.get('outputs') or [[]]
    if old_path == new_path:
        if po != so and not all(progcheck.same_word(a, b) for a, b in zip(po[0], so[0])):
            return True, out
        ps, ss = plain.get('state_after') or [[]], swapped.get('state_after') or [[]]
        n = max(len(ps[0]), len(ss[0]))
        if backend == 'vm' and len(ps[0]) != len(ss[0]):
            return True, out
        if not all(progcheck.same_word(a, b) for a, b in zip(ps[0] + [0] * (n - len(ps[0])), ss[0] + [0] * (n - len(ss[0])))):
            return True, out
        return False, out
    for (oi, ni) in kept or []:
        if oi < len(po[0]) and ni < len(so[0]) and not progcheck.same_word(po[0][oi], so[0][ni]):
            out['voice'] = (oi, ni)
            return True, out
    return False, out


# the three hot-swap routes of the shipped code: VM runtime; WASM runtime with the payload prepared as the native CLI does it for the
# WASM backend (subprocess compile: bytes only); WASM runtime with the payload of recompile_file_inprocess (skeleton passed along)
BACKENDS = (('vm', 'inprocess'), ('wasm', 'subprocess'), ('wasm', 'inprocess'))


def run(tier, seed, pid='C06'):
    quick = tier == 'quick'
    rep = Report(pid, tier, seed, 'model_checking')
    common.build_mmdump()
    mirs = common.prog_mirs(('mimium_cli',))
    files = [f for f in common.corpus_files(['st', 'ct', 'cl', 'fi', 'gn', 'fx'], tier, seed)]
    ldir = os.path.join(common.VERIF, 'corpus_large')       # states > 2^16 words, analysed in sparse mode (see SwapAnalysis.explore)
    if pid == 'C06' and os.path.isdir(ldir) and not os.environ.get('VERIF_ONLY'):
        files += [os.path.join(ldir, fn) for fn in sorted(os.listdir(ldir)) if fn.endswith('.mmm')]
    budget = 90 if quick else 400
    qto = 5000 if quick else 30000
    jobs = [('analysis', dict(cls=('checks.c06', 'SwapAnalysis'), path=f, mir_paths=mirs, steps=1, mode='inductive', backend=be, variant=var,
                              query_timeout_ms=qto, time_budget_s=budget, seed=seed)) for f in files for (be, var) in BACKENDS
            if be == 'vm' or '/corpus_large/' not in f]
    sdir = os.path.join(common.VERIF, 'corpus_swap')      # programs whose state words are handles (array-valued `self`): history mode
    if pid == 'C06' and os.path.isdir(sdir):
        for fn in sorted(os.listdir(sdir)):
            if fn.endswith('.mmm') and (not os.environ.get('VERIF_ONLY') or fn.startswith(tuple(os.environ['VERIF_ONLY'].split(',')))):
                for (be, var) in BACKENDS:
                    jobs.append(('analysis', dict(cls=('checks.c06', 'SwapAnalysis'), path=os.path.join(sdir, fn), mir_paths=mirs, steps=1, mode='inductive', backend=be, variant=var,
                                                  pre_steps=2, query_timeout_ms=qto, time_budget_s=budget, seed=seed)))
    if pid == 'C06':
        # split point n = 0: the swap comes before the first sample, from the state the runtime really has after main (on WASM the
        # state vector grows lazily and is still short); a fixed handful of programs in the quick tier, every st_ program otherwise
        fresh = [f for f in files if os.path.basename(f).startswith('st_') and '/corpus/' in f]
        if quick:
            fresh = [f for f in fresh if os.path.basename(f)[:-4] in ('st_counter', 'st_self', 'st_mem', 'st_delay', 'st_nested', 'st_selftuple')]
        for f in fresh:
            for (be, var) in BACKENDS:
                jobs.append(('analysis', dict(cls=('checks.c06', 'SwapAnalysis'), path=f, mir_paths=mirs, steps=1, mode='inductive', backend=be, variant=var,
                                              fresh=True, query_timeout_ms=qto, time_budget_s=budget, seed=seed)))
    res = run_jobs(jobs)
    npaths = nchecks = 0
    for r in res:
        if not rep.absorb(r):
            continue
        npaths += r.get('paths', 0)
        nchecks += r.get('checks', 0)
        path = r.get('path') or os.path.join(common.VERIF, 'corpus', r['program'] + '.mmm')
        done = False
        for d in r.get('panics', []):
            if done:
                break
            if d['kind'] != 'swap' and not d.get('pre_steps') and not d.get('fresh'):
                rep.inconclusive.append('%s: path ended by a crash obligation (%s): see C03' % (r['program'], d['msg'][:70]))
                continue
            rep.replays += 1
            be, var = r.get('backend', 'vm'), r.get('variant') or 'inprocess'
            ok, detail = confirm_swap(path, path, d, None, None, None, backend=be, variant=var)
            rec = dict(program=r['program'], backend=be, variant=var, msg=d['msg'], model=dict(inputs=d.get('inputs'), init_state=d.get('init_state'), now0=d.get('now0')), replay=detail)
            if ok:
                done = True
                key = r['program'] if be == 'vm' else '%s/wasm-%s' % (r['program'], var)
                if d.get('fresh') and ('apply_patches' in (d.get('msg') or '') or 'exceeds old storage size' in str(detail)):
                    # one cause, every program: keyed by cause and route
                    key = '%s:swap-before-first-sample' % ('vm' if be == 'vm' else 'wasm-' + var)
                rep.finding(key, rec)
            else:
                rep.inconclusive.append('%s: "%s" has a model that the real VM does not exhibit' % (r['program'], d['msg'][:80]))
        if len(rep.samples) < 8:
            rep.samples.append(dict(program=r['program'], backend=r.get('backend'), variant=r.get('variant'), feasible_paths=r['paths'], equalities_checked=r.get('checks'), decided_syntactically=r.get('checks_trivial'), state_words=r.get('state_size')))
    cov = dict(states=max(1, npaths), transitions=max(1, rep.stats['queries']), traces_validated_against_impl=rep.replays, programs=len(rep.programs),
               equalities_checked=nchecks,
               bounds='stateful + control corpus programs; swap point = arbitrary symbolic state (all state words; delay indices < len), so every split point n >= 1 is covered by one inductive query, and n = 0 (swap before the first sample, lazily grown WASM state) by a run from the real initial state for the st_ programs; '
                      'one dsp step after the swap with symbolic inputs compared with the un-swapped runtime (repeated swaps follow by induction); '
                      'three routes per program: <VmDspRuntime as DspRuntime>::try_hot_swap; FileRunner::prepare_hot_swap_wasm_payload (as called by the native CLI: '
                      'bytes only / as called by recompile_file_inprocess: with skeleton) + <WasmDspRuntime as DspRuntime>::try_hot_swap')
    assumptions = ['`now` continuing is a property of the driver sample counter (not reset by try_hot_swap): stubbed as the same symbolic counter on both machines',
                   'Machine::link_functions is stubbed (string interner / plugin lookup): STUB in stubs_used',
                   'WASM: WasmEngine::new / load_module (wasmtime compile + instantiate) are stubbed by a fresh wasmsym instance of the new module; the WasmModule surface (globals, memory, calls) is served by wasmsym; the hand-over between the CLI thread and the audio thread (mpsc channel, engine retirement) is sequentialised',
                   'replay of WASM witnesses uses a replica of the three lines of prepare_hot_swap_wasm_payload in mmdump (mimium-cli is not linked into the helper) with the real WasmDspRuntime::try_hot_swap',
                   'program dimension = finite corpus']
    return rep.finish(cov, assumptions)
