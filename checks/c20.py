"""C20 — values survive the plugin FFI encoding: the Value <-> FfiValue conversion layer (bounded model checking).

mirsym executes the MIR of `Value::to_ffi_value` and `FfiValue::to_value` (recursive, iterator map/collect) on every value
SHAPE up to a depth/width bound; every Number payload is a symbolic 64-bit pattern (NaN, +-inf, -0 included), every
TaggedUnion tag a symbolic u64, every string / record key / code id a symbolic interner id.  z3 decides payload equality.
The serde/bincode byte layer is outside (not encodable): see DESIGN.md.
"""
import itertools
import json
import os
import random
import sys
import time
import z3

sys.path.insert(0, os.path.dirname(os.path.dirname(os.path.abspath(__file__))))
from checks import common, progcheck
from checks.report import Report
from mirsym.interp import Interp, Explorer, PanicReached, Unsupported
from mirsym.models import Models, RcV, RefCellV
from mirsym.smt import Smt, f2b
from mirsym.values import Sc, Ref, Agg, VecV, BoxV, Opaque, StrV

PID = 'C20'
LEAVES_OK = ['Unit', 'Number', 'String', 'Code']
LEAVES_ERRV = ['ErrorV']
LEAVES_REFUSED = ['Closure', 'Fixpoint', 'ExternalFn', 'Store', 'ConstructorFn']
CONTAINERS = ['Array', 'Tuple', 'Record', 'TaggedUnion']


class FfiViolation(PanicReached):
    def __init__(self, msg):
        PanicReached.__init__(self, msg, 'ffi')


class SymStr(object):
    """an interned string seen through Symbol::as_str / String: identity = the symbolic interner id"""
    __slots__ = ('id',)

    def __init__(self, i):
        self.id = i


def shapes(depth, width):
    """nested tuples: ('Number',) ... ('Array', [children])"""
    leaves = [(k,) for k in LEAVES_OK + LEAVES_ERRV + LEAVES_REFUSED]
    if depth == 0:
        return leaves
    sub = shapes(depth - 1, width)
    out = list(leaves)
    for c in ('Array', 'Tuple', 'Record'):
        for w in range(0, width + 1):
            for kids in itertools.product(sub, repeat=w):
                out.append((c, list(kids)))
    for k in sub:
        out.append(('TaggedUnion', [k]))
    return out


def shape_str(s):
    if len(s) == 1:
        return s[0]
    return '%s(%s)' % (s[0], ','.join(shape_str(k) for k in s[1]))


def has_refused(s):
    if s[0] in LEAVES_REFUSED:
        return True
    return len(s) > 1 and any(has_refused(k) for k in s[1])


def has_errorv(s):
    if s[0] == 'ErrorV':
        return True
    return len(s) > 1 and any(has_errorv(k) for k in s[1])


def install_stubs(it):
    ex = it.models.extra

    def as_str(it, args, fr, callee):
        s = args[0]
        while type(s) is Ref:
            s = s.cont[s.key]
        return SymStr(s.fields[0])
    ex['Symbol::as_str'] = ex['interner::Symbol::as_str'] = as_str

    def to_string(it, args, fr, callee):
        return args[0]
    from mirsym.models import TRAIT_MODELS
    it.models.extra['<str as ToString>::to_string'] = to_string

    def to_symbol(it, args, fr, callee):
        s = args[0]
        if isinstance(s, SymStr):
            return Agg('Symbol', None, [s.id])
        raise Unsupported('to_symbol of %r' % (s,))
    ex['<String as ToSymbol>::to_symbol'] = ex['<std::string::String as ToSymbol>::to_symbol'] = to_symbol


def install_dispatch(it):
    # trait-qualified stubs are looked up through models.dispatch only for plain keys; route the two trait calls by hook
    orig_dispatch = it.models.dispatch

    def dispatch(it_, callee, args_, fr, _o=orig_dispatch):
        if callee.startswith('<str as ToString>::to_string') or callee.startswith('<str as std::string::ToString>::to_string'):
            it_.models.note('STUB str::to_string (identity on interned string)')
            return args_[0]
        if callee.endswith(' as ToSymbol>::to_symbol') or callee.endswith(' as interner::ToSymbol>::to_symbol'):
            it_.models.note('STUB ToSymbol::to_symbol (inverse of Symbol::as_str)')
            s = args_[0]
            while type(s) is Ref:
                s = s.cont[s.key]
            if isinstance(s, SymStr):
                return Agg('Symbol', None, [s.id])
        return _o(it_, callee, args_, fr)
    it.models.dispatch = dispatch


class Builder(object):
    """symbolic Value construction for a shape, and structural equality with solver-decided payloads"""

    def __init__(self, it, rec):
        self.it = it
        self.rec = rec
        self.e_val = it.layouts.find_enum('Value', 'Fixpoint')
        self.tag_v = it.enum_tag(self.e_val)
        self.ctr = 0

    def reset(self):
        self.ctr = 0

    def fresh(self, name, w):
        self.ctr += 1
        return z3.BitVec('%s%d' % (name, self.ctr), w)

    def build(self, s):
        it, e_val, tag_v, fresh, build = self.it, self.e_val, self.tag_v, self.fresh, self.build
        k = s[0]
        vi = e_val.variant_index(k)
        if k == 'Unit':
            return Agg(tag_v, vi, [])
        if k == 'Number':
            return Agg(tag_v, vi, [Sc('f64', it.smt.fp_from_bits(fresh('num', 64)))])
        if k == 'String':
            return Agg(tag_v, vi, [Agg('Symbol', None, [Sc('u32', fresh('sym', 32))])])
        if k in ('Code', 'ErrorV'):
            return Agg(tag_v, vi, [Agg('ExprNodeId', None, [Sc('u64', fresh('expr', 64))])])
        if k == 'Closure':
            return Agg(tag_v, vi, [Opaque('ExprNodeId'), VecV([]), Opaque('Environment')])
        if k == 'Fixpoint':
            return Agg(tag_v, vi, [Agg('Symbol', None, [Sc('u32', fresh('sym', 32))]), Opaque('ExprNodeId')])
        if k == 'ExternalFn':
            return Agg(tag_v, vi, [Opaque('ExtFunction')])
        if k == 'Store':
            return Agg(tag_v, vi, [RcV(RefCellV(Agg(tag_v, e_val.variant_index('Unit'), [])))])
        if k == 'ConstructorFn':
            return Agg(tag_v, vi, [Sc('u64', fresh('tag', 64)), Agg('Symbol', None, [Sc('u32', fresh('sym', 32))]), Opaque('TypeNodeId')])
        if k in ('Array', 'Tuple'):
            return Agg(tag_v, vi, [VecV([build(c) for c in s[1]])])
        if k == 'Record':
            return Agg(tag_v, vi, [VecV([Agg('tuple', None, [Agg('Symbol', None, [Sc('u32', fresh('key', 32))]), build(c)]) for c in s[1]])])
        if k == 'TaggedUnion':
            return Agg(tag_v, vi, [Sc('u64', fresh('tag', 64)), BoxV(build(s[1][0]))])
        raise ValueError(k)

    def equal(self, a, b, where):
        """structural equality with solver-decided payloads"""
        it, rec, equal = self.it, self.rec, self.equal
        ta, tb = type(a), type(b)
        if ta is Sc and tb is Sc:
            rec['checks'] += 1
            c = progcheck.words_equal_cond(it.smt, a, b) if a.t in ('u64', 'f64') else None
            if a.t == 'f64' or b.t == 'f64':
                # payload must be BIT-identical (NaN payload, -0): compare the bit patterns
                A, B = it.smt.fp_to_bits(a.v), it.smt.fp_to_bits(b.v)
                c = (A == B) if not (isinstance(A, int) and isinstance(B, int)) else z3.BoolVal(A == B)
            elif a.t != 'u64':
                A, B = it.bv(a), it.bv(b)
                c = A == B
            elif c is None:
                return
            c = z3.simplify(c)
            if z3.is_true(c):
                return
            if it.smt.check(z3.Not(c)) != z3.unsat:
                e = FfiViolation('payload at %s differs after the round trip' % where)
                e.model = it.smt.model()
                raise e
            return
        if ta is Agg and tb is Agg:
            if a.variant != b.variant or len(a.fields) != len(b.fields):
                raise FfiViolation('constructor at %s changed: %s#%s -> %s#%s' % (where, a.ty, a.variant, b.ty, b.variant))
            for i, (x, y) in enumerate(zip(a.fields, b.fields)):
                equal(x, y, '%s.%d' % (where, i))
            return
        if ta is VecV and tb is VecV:
            if len(a.buf) != len(b.buf):
                raise FfiViolation('length at %s changed' % where)
            for i, (x, y) in enumerate(zip(a.buf, b.buf)):
                equal(x, y, '%s[%d]' % (where, i))
            return
        if ta is BoxV and tb is BoxV:
            return equal(a.cell[0], b.cell[0], where + '.*')
        if ta is Opaque and tb is Opaque:
            return
        raise FfiViolation('shape at %s changed (%s vs %s)' % (where, ta.__name__, tb.__name__))


def run_shapes(args):
    mirs, shape_list, qto = args
    crate = progcheck.get_crate(mirs)
    out = []
    for sh in shape_list:
        smt = Smt(qto)
        it = Interp(crate, smt, Models())
        install_stubs(it)
        install_dispatch(it)
        ex = Explorer(smt, 50)
        rec = dict(shape=shape_str(sh), status='ok', msg=None, checks=0)
        builder = Builder(it, rec)
        build, equal = builder.build, builder.equal

        def path(it):
            builder.reset()
            v = build(sh)
            from mirsym.values import clone_val
            orig = clone_val(v)
            r = it.call('Value::to_ffi_value', [Ref([v], 0)], None)
            refused = has_refused(sh)
            if r.variant == 1:
                if not refused:
                    raise FfiViolation('a transferable value is refused with an error')
                return 'refused'
            if refused:
                raise FfiViolation('a value containing a non-transferable constructor is encoded instead of refused')
            back = it.call('FfiValue::to_value', [r.fields[0]], None)
            equal(orig, back, 'value')
            return 'roundtrip'
        res = ex.explore(it, path)
        for f in ex.findings:
            rec['status'] = 'violation' if f.kind == 'ffi' else 'panic'
            rec['msg'] = f.msg
            rec['where'] = f.where
            rec['tree'] = sh
            if f.model is not None:
                try:
                    rec['payloads'] = {d.name(): f.model[d].as_long() for d in f.model.decls() if d.arity() == 0 and z3.is_bv(f.model[d])}
                except Exception:
                    rec['payloads'] = {}
            break
        for u in ex.unsupported:
            rec['status'] = 'unsupported'
            rec['msg'] = '%s @ %s' % u
            break
        rec['paths'] = len(res)
        rec['solver'] = smt.stats.as_dict()
        rec['functions'] = dict(it.functions_used)
        rec['stubs'] = dict(it.models.used)
        out.append(rec)
    return out


def describe_shape(tree, payloads):
    """JSON description for `mmdump ffi`, numbering the payload variables exactly like run_shapes.build does"""
    ctr = [0]

    def fresh(name, default):
        ctr[0] += 1
        return (payloads or {}).get('%s%d' % (name, ctr[0]), default)

    def rec(s):
        k = s[0]
        if k == 'Number':
            return dict(k=k, bits=fresh('num', 0x3FF8000000000000))
        if k == 'String':
            return dict(k=k, s='s%d' % fresh('sym', ctr[0]))
        if k in ('Code', 'ErrorV'):
            fresh('expr', 0)
            return dict(k=k)
        if k == 'Fixpoint':
            fresh('sym', 0)
            return dict(k=k)
        if k == 'ConstructorFn':
            fresh('tag', 0)
            fresh('sym', 0)
            return dict(k=k)
        if k in ('Unit', 'Closure', 'ExternalFn', 'Store'):
            return dict(k=k)
        if k in ('Array', 'Tuple'):
            return dict(k=k, c=[rec(c) for c in s[1]])
        if k == 'Record':
            keys, kids = [], []
            for i, c in enumerate(s[1]):
                keys.append('k%d_%d' % (i, fresh('key', i)))
                kids.append(rec(c))
            return dict(k=k, keys=keys, c=kids)
        if k == 'TaggedUnion':
            t = fresh('tag', 3)
            return dict(k=k, tag=t, c=[rec(s[1][0])])
        raise ValueError(k)
    return rec(tree)


def real_roundtrip_confirms(r):
    """replay on the real crate: build the concrete Value (payloads from the solver model where there is one), push it through
    serialize_value / deserialize_value (to_ffi_value + bincode + to_value) with `mmdump ffi` and compare with the claim"""
    desc = describe_shape(r['tree'], r.get('payloads'))
    try:
        real = common.mmdump('ffi', '-', input=json.dumps([desc]), timeout=60)[0]
    except Exception as e:
        return False, dict(error=repr(e))
    msg = r.get('msg') or ''
    if real.get('panic'):
        return True, real
    if 'encoded instead of refused' in msg:
        return (real.get('refused') is False), real
    if 'is refused with an error' in msg:
        return (real.get('refused') is True), real
    return (real.get('refused') is False and real.get('equal') is False), real


def run(tier, seed):
    quick = tier == 'quick'
    rep = Report(PID, tier, seed, 'model_checking')
    common.build_mmdump()
    mirs = common.prog_mirs()
    rng = random.Random(seed)
    base = shapes(1, 2)
    # every unary nesting up to depth 3 (container in container in container, width <= 1): encoders like to special-case
    # one-element aggregates, and random sampling of the wide depth-2 space almost never hits a given one
    seen = set(shape_str(x) for x in base)
    for x in shapes(2, 1) + shapes(3, 1):
        if shape_str(x) not in seen:
            seen.add(shape_str(x))
            base.append(x)
    deep = [x for x in shapes(2, 2) if shape_str(x) not in seen]
    rng.shuffle(deep)
    sel = base + deep[: (300 if quick else 4000)]
    chunks = [sel[i::32] for i in range(32)]
    import multiprocessing as mp
    with mp.get_context('fork').Pool(16) as pool:
        res = pool.map(run_shapes, [(mirs, c, 5000) for c in chunks if c])
    # second layer: the dynamic-plugin macro bridge (DynPluginMacroInfo::get_fn closure + the generated plugin-side entry),
    # one closure invoked k = 3 times with independent symbolic arguments
    from checks import c20_bridge
    N, S, U = ('Number',), ('String',), ('Unit',)
    fixed = [
        [[N], [S], [N]],
        [[S], [S], [S]],
        [[S, N], [S], []],
        [[], [N], [N, N]],
        [[('Tuple', [N, S])], [('Array', [N])], [('Record', [S, N])]],
        [[N, S], [('Closure',)], [N]],
        [[('TaggedUnion', [N])], [('Code',)], [U]],
        [[('Array', [])], [('Tuple', [])], [('Record', [])]],
    ]
    pool_shapes = [x for x in shapes(1, 2) if not has_errorv(x)]
    brng = random.Random(1000 + seed)
    for _ in range(8 if quick else 64):
        fixed.append([[brng.choice(pool_shapes) for _ in range(brng.randint(0, 2))] for _ in range(3)])
    bchunks = [fixed[i::16] for i in range(16)]
    with mp.get_context('fork').Pool(16) as pool:
        bres = pool.map(c20_bridge.run_bridge, [(mirs, c, 5000) for c in bchunks if c])
    res = list(res) + list(bres)
    n_bridge = sum(len(c) for c in bres)
    nshapes = nchecks = npaths = 0
    for chunk in res:
        for r in chunk:
            nshapes += 1
            nchecks += r['checks']
            npaths += r.get('paths', 0)
            for k in rep.stats:
                rep.stats[k] += r['solver'].get(k, 0)
            rep.functions.update(r['functions'])
            for k, v in r['stubs'].items():
                rep.stubs[k] = rep.stubs.get(k, 0) + v
            if r['status'] == 'unsupported':
                rep.inconclusive.append('%s: unsupported: %s' % (r['shape'], r['msg'][:200]))
            elif r['status'] in ('violation', 'panic'):
                key = 'ErrorV-becomes-Unit' if 'ErrorV' in r['shape'] and 'constructor' in (r['msg'] or '') else '%s:%s' % (r['status'], r['shape'])
                rep.replays += 1
                if r.get('scenario') is not None:
                    confirmed, real = c20_bridge.real_bridge_confirms(r)
                    key = 'bridge:%s' % r['shape'][8:]
                else:
                    confirmed, real = real_roundtrip_confirms(r) if r.get('tree') is not None else (False, dict(note='no shape tree'))
                if confirmed:
                    rep.finding(key, dict(shape=r['shape'], msg=r['msg'], where=r.get('where'), replay=real))
                else:
                    rep.inconclusive.append('%s: "%s" is not what the real crate does with this value (%s)' % (r['shape'], (r['msg'] or '')[:80], json.dumps(real)[:160]))
            if len(rep.samples) < 8 and r['checks'] > 1:
                rep.samples.append(dict(shape=r['shape'], payload_equalities=r['checks'], status=r['status']))
    cov = dict(states=max(1, npaths), transitions=max(1, rep.stats['queries'] + nchecks), traces_validated_against_impl=rep.replays, value_shapes=nshapes - n_bridge, bridge_scenarios=n_bridge, payload_equalities=nchecks,
               bounds='all value shapes of depth <= 1 / width <= 2, all shapes of depth <= 3 / width <= 1, plus %d seeded shapes of depth 2 / width <= 2 over the 14 Value constructors; Number payloads, tags, string / key / code ids symbolic; macro bridge: %d scenarios of 3 consecutive invocations of one get_fn closure with 0..2 arguments each (shapes of depth <= 1)' % (len(sel) - len(base), n_bridge))
    assumptions = ['the string interner is stubbed as a bijection: Symbol::as_str / to_string / ToSymbol::to_symbol are mutually inverse on symbolic ids',
                   'bincode + serde derive for FfiValue and the hand-written serde impls for TypeNodeId / ExprNodeId are NOT encoded (byte buffers, visitors, global interner): outside the claim; in the bridge scenarios bincode is a stub: serialize = one opaque record, serialize_into APPENDS a record to its writer, deserialize reads the FIRST record and ignores trailing bytes (bincode 1.x)',
                   'bridge scenarios: the plugin is the entry point mimium-plugin-macros generates (decode with deserialize_macro_args, call, encode with serialize_value) with the method "return the tuple of all arguments"; TypeNodeId arguments are opaque',
                   'opaque payloads of the five non-transferable constructors are not inspected']
    return rep.finish(cov, assumptions)
