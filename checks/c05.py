"""C05 — compile-time state layout matches run-time state accesses (bounded model checking).

The VM is executed symbolically (mirsym) on each corpus program; every call of StateStorage::get_state /
get_state_mut / get_as_ringbuffer is observed with the concrete cursor, the size and the bytecode instruction that
issued it.  On every feasible path (feasibility decided by z3 over all input words / state words):
  * each access hits exactly one leaf of the published dsp skeleton of the right kind, at that leaf's address
    (address arithmetic by the state-tree crate's own total_size / path_to_address MIR) and with that leaf's size,
  * accesses of one dsp call hit pairwise distinct cells (except the read+write pair of one self/mem cell),
  * the cursor is back at 0 when dsp returns (VM and WASM),
  * the state words of VM and WASM are identical after every sample.
A second, program-independent query decides the layout arithmetic for all leaf sizes (see layout_kernel).
"""
import os
import sys
import time
import z3

sys.path.insert(0, os.path.dirname(os.path.dirname(os.path.abspath(__file__))))
from checks import common, progcheck
from checks.report import Report
from checks.run_programs import run_jobs
from mirsym.interp import PanicReached, split_path
from mirsym.values import Sc, Ref, Agg, Slice, VecV, BoxV
from mirsym import vmdriver

PID = 'C05'


class LayoutViolation(PanicReached):
    def __init__(self, msg):
        PanicReached.__init__(self, msg, 'layout')


class LayoutAnalysis(progcheck.ProgramAnalysis):
    def __init__(self, **kw):
        progcheck.ProgramAnalysis.__init__(self, **kw)
        self.result['backends'] = list(self.backends)
        self.result['accesses'] = 0
        self.leaf_addr_checked = False
        # accesses made by the global initialiser (before the first dsp call) land here and are not judged against dsp's layout
        self.cur_step_accesses = []

    # -- layout through the real state-tree code ---------------------------------------------------
    def leaves_via_mir(self, it):
        """(addr,size,kind,len) of every leaf, computed by running StateTreeSkeleton::path_to_address MIR"""
        sk = vmdriver.skel_value(it, self.dsp_skel)
        out = []

        def walk(js, path):
            if js['k'] == 'FnCall':
                for i, c in enumerate(js['children']):
                    walk(c, path + [i])
            else:
                buf = [Sc('usize', p) for p in path]
                r = it.call('StateTreeSkeleton::<StateType>::path_to_address', [Ref([sk], 0), Slice(buf, 0, len(buf))], None)
                if r.variant != 1:
                    raise LayoutViolation('path_to_address returned None for leaf path %s' % path)
                a, s = r.fields[0].fields
                out.append((it.concretize(a), it.concretize(s), js['k'], js.get('len', js.get('size'))))
        walk(self.dsp_skel, [])
        tot = it.call('StateTreeSkeleton::<StateType>::total_size', [Ref([sk], 0)], None)
        return out, it.concretize(tot)

    def install_observers(self, it, vm):
        an = self
        if not self.leaf_addr_checked:
            mir_leaves, tot = self.leaves_via_mir(it)
            if [(a, s) for a, s, _, _ in mir_leaves] != [(a, s) for a, s, _, _ in self.leaves] or tot != self.state_size:
                raise LayoutViolation('path_to_address/total_size of the state-tree crate disagree with the flat sum of the skeleton: %s vs %s' % (mir_leaves, self.leaves))
            self.leaf_addr_checked = True

        def cur_instr(it):
            for fr in reversed(it.stack):
                if split_path(fr.name)[-1] == 'execute':
                    for i, ty in fr.body.local_types.items():
                        if ty.endswith('bytecode::Instruction') and ty.startswith('&'):
                            v = fr.locals[i]
                            if type(v) is Ref:
                                ins = v.cont[v.key]
                                e = it.layouts.find_enum('Instruction', hint='bytecode')
                                return e.variants[ins.variant][0]
            return '?'

        def on_access(kind):
            def ob(it, name, args):
                if 'vm.rs' not in name:
                    return
                st = args[0].cont[args[0].key]
                if st is not vm.field('global_states'):
                    return      # per-closure storage: judged by C03's bounds obligations only
                pos = st.fields[0].v
                size = args[1].v
                an.cur_step_accesses.append((pos, size, kind, cur_instr(it)))
            return ob
        it.observers['get_state'] = on_access('read')
        it.observers['get_state_mut'] = on_access('write')
        it.observers['get_as_ringbuffer'] = on_access('ring')

    def after_step(self, it, step, init):
        r = self.result
        leaves = {a: (s, k, n) for a, s, k, n in self.leaves}
        hit = {}
        for (pos, size, how, ins) in step.get('accesses', []):
            r['accesses'] += 1
            r['checks'] += 1
            if not isinstance(pos, int) or not isinstance(size, int):
                raise LayoutViolation('symbolic state cursor / size at %s' % ins)
            if pos + (size + 2 if how == 'ring' else size) > self.state_size:
                raise LayoutViolation('%s at cursor %d size %d is outside the %d-word storage sized from the layout' % (ins, pos, size, self.state_size))
            leaf = leaves.get(pos)
            if leaf is None:
                raise LayoutViolation('%s at cursor %d: the layout has no cell at this offset (cells at %s)' % (ins, pos, sorted(leaves)))
            lsize, kind, n = leaf
            if ins == 'Delay':
                if kind != 'Delay' or n != size:
                    raise LayoutViolation('Delay with ring length %d at cursor %d, layout cell there is %s(%s)' % (size, pos, kind, n))
            elif ins == 'Mem':
                if kind != 'Mem' or size != lsize:
                    raise LayoutViolation('Mem access of %d word(s) at cursor %d, layout cell there is %s(%s)' % (size, pos, kind, n))
            elif ins in ('GetState', 'SetState'):
                if kind != 'Feed' or size != lsize:
                    raise LayoutViolation('%s of %d word(s) at cursor %d, layout cell there is %s(%s)' % (ins, size, pos, kind, n))
            else:
                raise LayoutViolation('state access from unexpected instruction %s' % ins)
            prev = hit.setdefault(pos, [])
            if prev and not (ins in ('GetState', 'SetState', 'Mem') and all(p_ in ('GetState', 'SetState', 'Mem') for p_ in prev)):
                raise LayoutViolation('cell at offset %d accessed by two different sites in one dsp call (%s, %s)' % (pos, prev[0], ins))
            if prev.count(ins) >= (2 if ins == 'Mem' else 1):        # the VM's Mem arm calls get_state_mut twice (read, then write)
                # one call site reads (GetState / Mem / Delay) and writes (SetState) its cell once per dsp call: a second access by
                # the same kind of instruction means two call sites were given the same cell
                raise LayoutViolation('cell at offset %d is accessed twice by %s in one dsp call: two call sites share one layout cell' % (pos, ins))
            prev.append(ins)
        if 'vm_pos' in step:
            p = step['vm_pos'].v
            r['checks'] += 1
            if not isinstance(p, int) or p != 0:
                raise LayoutViolation('VM state cursor is %s (not 0) when dsp returns' % (p,))
        if 'wasm_pos' in step:
            p = step['wasm_pos'].v
            r['checks'] += 1
            if not isinstance(p, int) or p != 0:
                raise LayoutViolation('WASM state cursor is %s (not 0) when dsp returns' % (p,))
        # third clause: flat state words identical on VM and WASM
        if 'vm_state' in step and 'wasm_state' in step:
            saved = dict(step)
            step2 = dict(step)
            step2['vm_out'], step2['wasm_out'] = [], []
            progcheck.ProgramAnalysis.after_step(self, it, step2, init)


def layout_kernel(mirs, max_nodes, seed):
    """all tree shapes with <= max_nodes nodes (depth <= 3), leaf kinds enumerated, leaf sizes SYMBOLIC in [0, 2^32):
    path_to_address(i-th leaf) = sum of total_size of the leaves before it, ranges tile [0, total_size), Delay costs len+2.
    Decided on the MIR of state-tree/src/tree.rs at T = u64."""
    from mirsym.interp import Interp, Explorer
    from mirsym.models import Models
    from mirsym.smt import Smt
    crate = progcheck.get_crate(mirs)
    shapes = list(enum_shapes(max_nodes))
    smt = Smt(10000)
    it = Interp(crate, smt, Models())
    e = it.layouts.find_enum('StateTreeSkeleton')
    tag = it.enum_tag(e)
    results = dict(shapes=len(shapes), obligations=0, failed=[], unsupported=[], queries=0)

    for shape in shapes:
        ex = Explorer(smt, 50)
        counter = [0]

        def build(sh, sizes):
            k = sh[0]
            if k == 'F':
                return Agg(tag, e.variant_index('FnCall'), [VecV([BoxV(build(c, sizes)) for c in sh[1]])])
            v = z3.BitVec('sz%d' % counter[0], 64)
            counter[0] += 1
            it.smt.add(z3.ULT(v, z3.BitVecVal(1 << 32, 64)))
            sizes.append((k, v))
            if k == 'D':
                return Agg(tag, e.variant_index('Delay'), [Sc('u64', v)])
            return Agg(tag, e.variant_index('Mem' if k == 'M' else 'Feed'), [Sc('u64', v)])

        def leaf_paths(sh, path, out):
            if sh[0] == 'F':
                for i, c in enumerate(sh[1]):
                    leaf_paths(c, path + [i], out)
            else:
                out.append(path)
            return out

        def path(it):
            counter[0] = 0
            sizes = []
            sk = build(shape, sizes)
            tot = it.call('StateTreeSkeleton::<u64>::total_size', [Ref([sk], 0)], None)
            expect = z3.BitVecVal(0, 64)
            obligations = []
            for (k, v), p in zip(sizes, leaf_paths(shape, [], [])):
                buf = [Sc('usize', x) for x in p]
                r = it.call('StateTreeSkeleton::<u64>::path_to_address', [Ref([sk], 0), Slice(buf, 0, len(buf))], None)
                if r.variant != 1:
                    raise LayoutViolation('path_to_address None for %s' % p)
                a, s = r.fields[0].fields
                cost = v + 2 if k == 'D' else v
                obligations.append(it.bv(a) == expect)
                obligations.append(it.bv(s) == cost)
                expect = expect + cost
            obligations.append(it.bv(tot) == expect)
            for ob in obligations:
                results['obligations'] += 1
                if it.smt.check(z3.Not(ob)) != z3.unsat:
                    raise LayoutViolation('layout arithmetic obligation fails for shape %s' % (shape,))
            return None
        res = ex.explore(it, path)
        for f in ex.findings:
            results['failed'].append(dict(shape=str(shape), msg=f.msg, where=f.where))
        for u in ex.unsupported:
            results['unsupported'].append('%s: %s' % (shape, u[0]))
    results['queries'] = smt.stats.queries
    results['solver_s'] = round(smt.stats.solver_s, 2)
    results['functions'] = dict(it.functions_used)
    return results


def enum_shapes(max_nodes, depth=3):
    """root is always FnCall (as published by the compiler); yields nested tuples ('F', [children]) / ('D',) ('M',) ('E',)"""
    def trees(n, d):
        # all trees with exactly n nodes and depth <= d
        if n == 1:
            for k in 'DME':
                yield (k,)
            yield ('F', [])
            return
        if d == 0:
            return
        for kids in forests(n - 1, d - 1):
            yield ('F', kids)

    def forests(n, d):
        if n == 0:
            yield []
            return
        for first in range(1, n + 1):
            for t in trees(first, d):
                for rest in forests(n - first, d):
                    yield [t] + rest
    for n in range(1, max_nodes + 1):
        for t in trees(n, depth):
            if t[0] == 'F':
                yield t


def run(tier, seed):
    quick = tier == 'quick'
    rep = Report(PID, tier, seed, 'model_checking')
    common.build_mmdump()
    common.build_mmdump(debug=True)
    mirs = common.prog_mirs()
    groups = ['st', 'ct', 'op', 'cl', 'fi', 'gn', 'ga', 'fx', 'sc']
    files = common.corpus_files(groups, tier, seed)
    steps = 3 if quick else 6
    budget = 60 if quick else 300
    qto = 5000 if quick else 30000
    jobs = []
    for f in files:
        for mode, st in (('bmc', steps), ('inductive', 1)):
            jobs.append(('analysis', dict(cls=('checks.c05', 'LayoutAnalysis'), path=f, mir_paths=mirs, steps=st, mode=mode,
                                          query_timeout_ms=qto, time_budget_s=budget, seed=seed)))
    res = run_jobs(jobs)
    npaths = naccess = 0
    for r in res:
        if not rep.absorb(r):
            continue
        npaths += r.get('paths', 0)
        naccess += r.get('accesses', 0)
        path = r.get('path') or os.path.join(common.VERIF, 'corpus', r['program'] + '.mmm')
        done = False
        for d in r.get('panics', []):
            if done:
                break
            if d['kind'] != 'layout':
                # crashes belong to C03; here they only end the path
                rep.inconclusive.append('%s[%s]: path ended by a crash obligation (%s) before the layout could be judged: see C03' % (r['program'], r['mode'], d['msg'][:60]))
                continue
            d['leaves'] = r.get('leaves')
            rec = dict(program=r['program'], mode=r['mode'], msg=d['msg'], model=dict(inputs=d.get('inputs'), init_state=d.get('init_state'), now0=d.get('now0')))
            # replay: the real VM must reach the same state cursor / the real runtimes must show the cursor / state difference
            rep.replays += 1
            ok, detail = confirm_layout(path, d, r['steps'])
            rec['replay'] = detail
            if ok:
                done = True
                rep.finding(r['program'], rec)
            else:
                rep.inconclusive.append('%s[%s]: layout obligation "%s" has a model that the real build does not exhibit' % (r['program'], r['mode'], d['msg'][:80]))
        for d in r.get('divergences', []):
            if done:
                break
            rep.replays += 1
            try:
                ok, detail = progcheck.replay_divergence(path, d, r['steps'])
            except Exception as e:
                ok, detail = False, dict(error=repr(e))
            if ok and 'state' in (detail.get('reason') or ''):
                done = True
                rep.finding(r['program'], dict(program=r['program'], mode=r['mode'], msg='state words differ between VM and WASM: ' + d['what'], replay=detail))
        if len(rep.samples) < 8 and r['mode'] == 'bmc' and r.get('accesses'):
            rep.samples.append(dict(program=r['program'], steps=r['steps'], feasible_paths=r['paths'], state_accesses_checked=r['accesses'], layout_cells=r.get('state_size')))
    # program-independent layout arithmetic for all sizes
    kern = layout_kernel(mirs, 5 if quick else 6, seed)
    for f in kern['failed']:
        rep.finding('layout-kernel:' + f['shape'], dict(program='layout-kernel', msg=f['msg'], shape=f['shape']))
    for u in kern['unsupported']:
        rep.inconclusive.append('layout-kernel: unsupported: %s' % u)
    rep.functions.update(kern.pop('functions'))
    cov = dict(states=max(1, npaths + kern['shapes']), transitions=max(1, rep.stats['queries'] + kern['queries']), traces_validated_against_impl=rep.replays,
               programs=len(rep.programs), state_accesses_checked=naccess, layout_kernel=kern, corpus_groups=groups, steps_bmc=steps,
               bounds='corpus groups %s, BMC %d steps + 1 inductive step, all inputs/state words symbolic; layout kernel: all skeleton shapes with <= %d nodes, depth <= 3, every leaf size symbolic in [0,2^32)' % (groups, steps, 5 if quick else 6))
    assumptions = ['program dimension = finite corpus; closures with their own state storages are only bounds-checked (C03)',
                   'the cursor and sizes are concrete on each path because PushStatePos/PopStatePos operands are program constants; which path executes is decided by the solver',
                   'std callees modelled (stubs_used)']
    return rep.finish(cov, assumptions)


def confirm_layout(path, d, steps):
    """the concrete witness is replayed on the real build (dev profile with the cfg(mimium_verif) bounds asserts):
    confirmed when the real VM panics / crashes, ends a step with a non-zero cursor, or VM and WASM state words differ."""
    spec = dict(src_path=path, backend='both', steps=steps, inputs=d.get('inputs', []), init_state=d.get('init_state'), now_start=d.get('now0', 0), timeout_s=20)
    out = {}
    ok = False
    for debug in (True, False):
        try:
            rr = common.replay(spec, debug=debug)
        except Exception as e:
            out['error'] = repr(e)
            continue
        vm, wa = rr.get('vm', {}), rr.get('wasm', {})
        info = dict(vm_panic=vm.get('panic'), vm_crash=vm.get('crash'), vm_pos=vm.get('state_pos_after'), wasm_pos=wa.get('state_pos_after'),
                    vm_state_len=[len(s) for s in vm.get('state_after') or []], wasm_state_len=[len(s) for s in wa.get('state_after') or []])
        out['debug' if debug else 'release'] = info
        if vm.get('panic') or vm.get('crash') or wa.get('panic') or wa.get('crash'):
            ok = True
        if any(p != 0 for p in (vm.get('state_pos_after') or [])) or any(p != 0 for p in (wa.get('state_pos_after') or [])):
            ok = True
        # the real VM's own access log (cfg(mimium_verif) hook) against the published layout
        leaves = d.get('leaves') or []
        cells = {a: (s, k, n) for a, s, k, n in leaves}
        for step_acc in vm.get('state_accesses') or []:
            seen_acc = {}
            for pos, size, kind in step_acc:
                seen_acc[(pos, kind)] = seen_acc.get((pos, kind), 0) + 1
            dup = sorted(k for k, n_ in seen_acc.items() if n_ > (2 if k[1] == 1 else 1))      # kind 1 = get_state_mut: twice per Mem
            if dup and 'twice' in (d.get('msg') or ''):
                ok = True
                info['real_cell_accessed_twice_in_one_dsp_call'] = dup[:4]
            for pos, size, kind in step_acc:
                leaf = cells.get(pos)
                if leaf is None:
                    ok = True
                    info['real_access_outside_layout'] = [pos, size, kind]
                elif kind == 2 and (leaf[1] != 'Delay' or leaf[2] != size):
                    ok = True
                    info['real_access_mismatch'] = [pos, size, kind, list(leaf)]
                elif kind != 2 and (leaf[1] == 'Delay' or leaf[0] != size):
                    ok = True
                    info['real_access_mismatch'] = [pos, size, kind, list(leaf)]
        vs, ws = vm.get('state_after') or [], wa.get('state_after') or []
        for a, b in zip(vs, ws):
            n = max(len(a), len(b))
            if any(not progcheck.same_word(x, y) for x, y in zip(a + [0] * (n - len(a)), b + [0] * (n - len(b)))):
                ok = True
    out['spec'] = spec
    return ok, out
