"""C11 — scheduled tasks run exactly once at exactly their sample (bounded model checking of the queue / worker layer).

mirsym executes the MIR of mimium-scheduler: SimpleScheduler::{default, schedule_at, schedule_at_inner},
SchedulerAudioWorker::{on_sample, pop_task, set_cur_time}, Task::{cmp, partial_cmp}, and the WASM side
WasmSchedulerHandle::{default, into_wasm_plugin_fn_map + its closure, on_sample, set_current_time, drain_due_tasks}.
Task TIMES are symbolic f64 words; scheduling points (global init / during dsp of sample j / from a running task) are
enumerated scenarios; the solver decides every `when <= now` comparison and the final exactly-once-at-floor(time) claims.
"""
import itertools
import os
import sys
import time
import z3

sys.path.insert(0, os.path.dirname(os.path.dirname(os.path.abspath(__file__))))
from checks import common
from checks.report import Report
from mirsym.mirparse import MirFile
from mirsym.layouts import Layouts
from mirsym.interp import Crate, Interp, Explorer, PanicReached, Unsupported
from mirsym.models import Models, RcV, RefCellV, some, none, ok
from mirsym.smt import Smt, f2b, b2f
from mirsym import smt as S
from mirsym.values import Sc, Ref, Agg, Slice, VecV, Opaque, UNIT, StrV, MapV

PID = 'C11'
_CR = {}


class TimesModel(object):
    """witness times built from the model of the integer view: time_j = isample_j + a fractional part consistent with the
    rounding booleans (0.75 if 'fraction >= 0.5' holds, else 0.25, 0 if 'fraction > 0' is false); validated by the replay"""

    def __init__(self, bits):
        self.bits = bits

    def eval(self, var, model_completion=True):
        return z3.BitVecVal(self.bits.get(str(var), 0), 64)


def times_model(smt, ints, tf_ids):
    try:
        m = smt.model()
    except Exception:
        return None
    bits = {}
    for j, w in enumerate(ints):
        n = m.eval(w, model_completion=True).as_long()
        ge = m.eval(z3.Bool('fracgehalf_%d' % tf_ids[j]), model_completion=False)
        pos = m.eval(z3.Bool('fracpos_%d' % tf_ids[j]), model_completion=False)
        frac = 0.25
        if z3.is_true(ge):
            frac = 0.75
        elif z3.is_false(pos):
            frac = 0.0
        bits['time_%d' % j] = f2b(float(n) + frac)
    return TimesModel(bits)


class SchedViolation(PanicReached):
    def __init__(self, msg):
        PanicReached.__init__(self, msg, 'sched')


def get_crate(mirs):
    key = tuple(mirs)
    c = _CR.get(key)
    if c is None:
        L = Layouts()
        for rel in common.CRATES.values():
            L.scan_dir(os.path.join(common.REPO, rel, 'src'))
        c = Crate([MirFile(p) for p in mirs], L, common.REPO)
        _CR[key] = c
    return c


def scenarios(K, T, limit, rng):
    """each task: where it is scheduled from: ('init',) | ('dsp', j) | ('task', parent index < i)"""
    opts = []
    for i in range(K):
        o = [('init',)] + [('dsp', j) for j in range(0, T - 1)] + [('task', p) for p in range(i)]
        opts.append(o)
    allsc = list(itertools.product(*opts))
    fixed = [tuple(('init',) for _ in range(K)),
             tuple([('init',)] + [('task', i - 1) for i in range(1, K)]),            # self-rescheduling chain
             tuple(('dsp', 0) for _ in range(K)),
             tuple(('dsp', min(i, T - 2)) for i in range(K))]
    rng.shuffle(allsc)
    out = []
    for s in fixed + allsc:
        if s not in out:
            out.append(s)
        if len(out) >= limit:
            break
    return out


class Run(object):
    """one scenario on one backend inside one path"""

    def __init__(self, it, backend, scen, T, times):
        self.it = it
        self.backend = backend
        self.scen = scen
        self.T = T
        self.times = times          # list of Sc('f64') symbolic
        self.log = []               # (task id, sample)
        self.cur = None             # sample index during which scheduling happens (-1 = global init)
        self.pending_arg = None
        self.install()

    # stubs of the runtime hand-over --------------------------------------------------------------
    def install(self):
        ex = self.it.models.extra
        run = self

        def handle_from_machine(it, args, fr, callee):
            return Opaque('RuntimeHandle')
        ex['vm_ffi::runtime_handle_from_machine'] = ex['runtime_handle_from_machine'] = ex['mimium_lang::runtime::vm_ffi::runtime_handle_from_machine'] = handle_from_machine

        def get_arg_f64(it, args, fr, callee):
            return run.times[run.pending_arg]
        ex['RuntimeHandle::get_arg_f64'] = get_arg_f64

        def get_arg_raw(it, args, fr, callee):
            return Sc('u64', run.pending_arg + 1)
        ex['RuntimeHandle::get_arg_raw'] = get_arg_raw

        def resolve_closure(it, args, fr, callee):
            return args[1]
        ex['RuntimeHandle::resolve_closure'] = resolve_closure

        def execute_closure(it, args, fr, callee):
            cid = it.concretize(args[1], 'closure handle')
            run.on_task(cid - 1)
            return UNIT
        ex['RuntimeHandle::execute_closure'] = execute_closure

        def execute_function(it, args, fr, callee):
            sl = args[2]
            cid = it.concretize(sl.buf[sl.start], 'closure address')
            run.on_task(cid - 1)
            return ok(VecV([]))
        ex['WasmEngine::execute_function'] = execute_function

    def on_task(self, i):
        self.log.append((i, self.cur))
        for j, sc in enumerate(self.scen):
            if sc == ('task', i):
                self.schedule(j)

    # scheduling call of task j at the current point ----------------------------------------------------
    def schedule(self, j):
        it = self.it
        if self.backend == 'vm':
            self.pending_arg = j
            it.call('SimpleScheduler::schedule_at', [Ref([self.sched], 0), Ref([Opaque('Machine')], 0)], None)
        else:
            buf = [self.times[j], Sc('f64', f2b(float(j + 1)))]
            it.call_value(self.wasm_fn, [Slice(buf, 0, 2)], None)

    def setup(self):
        it = self.it
        if self.backend == 'vm':
            self.sched = it.call('<SimpleScheduler as Default>::default', [], None)
            w = it.call('SimpleScheduler::take_audio_worker', [Ref([self.sched], 0)], None)
            self.worker = w.fields[0]
        else:
            self.handle = it.call('<WasmSchedulerHandle as Default>::default', [], None)
            m = it.call('WasmSchedulerHandle::into_wasm_plugin_fn_map', [Ref([self.handle], 0)], None)
            f = None
            for k, v in m.items:
                if getattr(k, 's', None) == '_mimium_schedule_at':
                    f = v
            if f is None:
                raise SchedViolation('WASM plugin map has no _mimium_schedule_at')
            self.wasm_fn = f.cell[0] if isinstance(f, RcV) else f

    def play(self):
        it = self.it
        self.setup()
        self.cur = -1
        for j, sc in enumerate(self.scen):
            if sc == ('init',):
                self.schedule(j)
        for t in range(self.T):
            self.cur = t
            if self.backend == 'vm':
                it.call('<SchedulerAudioWorker as SystemPluginAudioWorker>::on_sample',
                        [Ref([self.worker], 0), Agg('Time', None, [Sc('u64', t)]), Ref([Opaque('Machine')], 0)], None)
            else:
                it.call('<WasmSchedulerHandle as WasmSystemPluginAudioWorker>::on_sample',
                        [Ref([self.handle], 0), Agg('Time', None, [Sc('u64', t)]), Ref([Opaque('WasmEngine')], 0)], None)
            # dsp of sample t
            for j, sc in enumerate(self.scen):
                if sc == ('dsp', t):
                    self.schedule(j)
        return self.log


def analyse(args):
    mirs, scen, T, qto = args[:4]
    shared = len(args) > 4 and args[4]        # burst scenario: every task carries the SAME symbolic time (one variable)
    crate = get_crate(mirs)
    smt = Smt(qto)
    it = Interp(crate, smt, Models())
    it.deadline = time.time() + (240 if qto <= 5000 else 1500)      # per scenario; exhausted -> reported as inconclusive
    ex = Explorer(smt, 4000)
    K = len(scen)
    out = dict(scenario=[list(s) for s in scen], T=T, paths=0, findings=[], unsupported=[], checks=0, shared=bool(shared))

    def sched_sample(j, logs_parent_time):
        sc = scen[j]
        if sc[0] == 'init':
            return -1
        if sc[0] == 'dsp':
            return sc[1]
        return None     # from a task: the parent's execution sample

    def path(it):
        times = []
        ints = []
        tf_ids = []
        links = []      # isample_j == (time_j as u64): every u64 below 2^40 is the truncation of some f64 in range, so the queue logic
                        # is explored over the integer view alone and the FP link is only added to extract a witness
        for j in range(K):
            if shared and j > 0:
                times.append(times[0])
                tf_ids.append(tf_ids[0])
                ints.append(ints[0])
                continue
            tb = z3.BitVec('time_%d' % j, 64)
            tf = it.smt.fp_from_bits(tb)
            it.smt.add(z3.And(z3.Not(z3.fpIsNaN(tf)), z3.Not(z3.fpIsInf(tf)), z3.fpGEQ(tf, z3.FPVal(0.0, S.F64)), z3.fpLT(tf, z3.FPVal(float(1 << 40), S.F64))))
            times.append(Sc('f64', tf))
            tf_ids.append(tf.get_id())
            conv = it.float_to_int(Sc('f64', tf), 'u64').v             # Rust `as u64`: truncation (exact SMT-FP semantics)
            w = z3.BitVec('isample_%d' % j, 64)
            links.append(w == conv)
            it.smt.add(z3.ULT(w, z3.BitVecVal(1 << 40, 64)))
            # every later `time as u64` in the executed MIR denotes this word: share one name so that the queue comparisons
            # are plain bit-vector facts and the FP conversion is reasoned about once
            if not hasattr(it.smt, 'int_views') or it.smt.int_views is None:
                it.smt.int_views = {}
            it.smt.int_views[(tf.get_id(), 'u64')] = (tf, w)
            ints.append(w)
        # precondition of the property: the time lies after the sample in which it is scheduled.
        # for tasks scheduled from init / dsp the sample is known; for children of tasks it is the parent's time
        for j, sc in enumerate(scen):
            if sc[0] == 'init':
                it.smt.add(z3.UGT(ints[j], 0))       # global scope: current sample is 0 and the clock has not started
            elif sc[0] == 'dsp':
                it.smt.add(z3.UGT(ints[j], sc[1]))
            else:
                it.smt.add(z3.UGT(ints[j], ints[sc[1]]))
        logs = {}
        it.path_links = []          # witnesses are built from the integer view (times_model), never by solving the FP links
        for be in ('vm', 'wasm'):
            run = Run(it, be, scen, T, times)
            logs[be] = run.play()
        for be in ('vm', 'wasm'):
            log = logs[be]
            for j in range(K):
                hits = [t for (i, t) in log if i == j]
                out['checks'] += 1
                # a child of a task that never ran inside the horizon is never scheduled
                reachable = True
                sc = scen[j]
                if len(hits) > 1:
                    e = SchedViolation('%s: task %d ran %d times (samples %s)' % (be, j, len(hits), hits))
                    e.model = (times_model(it.smt, ints, tf_ids) if it.smt.check() == z3.sat else None) or TimesModel({})
                    raise e
                if len(hits) == 1:
                    c = ints[j] == hits[0]
                    rr_ = it.smt.check(z3.Not(c))
                    if rr_ != z3.unsat:
                        e = SchedViolation('%s: task %d ran at sample %d which is not floor(time)' % (be, j, hits[0]))
                        e.model = times_model(it.smt, ints, tf_ids) if rr_ == z3.sat else None
                        if e.model is None:
                            e.model = TimesModel({})
                        raise e
                else:
                    # not run within the horizon: only legitimate when floor(time) >= T (or its parent never ran)
                    parent_ran = True
                    p = sc
                    while p[0] == 'task':
                        if not any(i == p[1] for (i, t) in log):
                            parent_ran = False
                            break
                        p = scen[p[1]]
                    if parent_ran:
                        c = z3.UGE(ints[j], T)
                        rr_ = it.smt.check(z3.Not(c))
                        if rr_ != z3.unsat:
                            e = SchedViolation('%s: task %d was dropped (its sample lies inside the horizon of %d samples)' % (be, j, T))
                            e.model = times_model(it.smt, ints, tf_ids) if rr_ == z3.sat else None
                            if e.model is None:
                                e.model = TimesModel({})
                            raise e
        if sorted(logs['vm']) != sorted(logs['wasm']):
            e = SchedViolation('VM worker and WASM handle disagree: %s vs %s' % (logs['vm'], logs['wasm']))
            e.model = (times_model(it.smt, ints, tf_ids) if it.smt.check() == z3.sat else None) or TimesModel({})
            raise e
        return logs
    res = ex.explore(it, path)
    out['paths'] = len(res)
    for f in ex.findings:
        tm = {}
        if f.model is not None:
            for j in range(K):
                tm[j] = f.model.eval(z3.BitVec('time_%d' % (0 if shared else j), 64), model_completion=True).as_long()
        out['findings'].append(dict(kind=f.kind, msg=f.msg, where=f.where, times=tm))
    out['unsupported'] = ['%s @ %s' % u for u in ex.unsupported][:5]
    out['truncated'] = ex.truncated
    out['solver'] = smt.stats.as_dict()
    out['functions'] = dict(it.functions_used)
    out['stubs'] = dict(it.models.used)
    return out


# ---------------------------------------------------------------------------------------------------
# replay of a witness on the real VM + WASM runtimes through a generated mimium program
# ---------------------------------------------------------------------------------------------------
def witness_program(scen, times_bits, T, unit=False):
    """a mimium program realising the scenario: task j adds 2^j (1 in a burst scenario) to a global accumulator; dsp returns the accumulator"""
    K = len(scen)
    if unit:
        t0 = repr(b2f(times_bits.get(0, 0)))
        src = 'let acc = 0.0\nfn tk(){\n  acc = acc + 1.0\n}\n'
        if scen[0][0] == 'init':
            src += ''.join('let _ = tk@%s\n' % t0 for _ in range(K))
            return src + 'fn dsp(){\n  acc\n}\n'
        body = ''.join('    tk@%s\n' % t0 for _ in range(K))
        return src + 'fn dsp(){\n  let _k = if (now == %s) {\n%s    1.0\n  } else { 0.0 }\n  acc\n}\n' % (float(scen[0][1]), body)
    vals = [repr(b2f(times_bits.get(j, 0))) for j in range(K)]
    src = 'let acc = 0.0\n'
    # define tasks in reverse dependency order so children exist
    for j in reversed(range(K)):
        body = '  acc = acc + %s\n' % float(2 ** j)
        for c, sc in enumerate(scen):
            if tuple(sc) == ('task', j):
                body += '  t%d@%s\n' % (c, vals[c])
        src += 'fn t%d(){\n%s}\n' % (j, body)
    init = ''.join('let _ = t%d@%s\n' % (j, vals[j]) for j, sc in enumerate(scen) if tuple(sc) == ('init',))
    src += init
    dspbody = ''
    for j, sc in enumerate(scen):
        if sc[0] == 'dsp':
            dspbody += '  let _%d = if (now == %s) { t%d@%s\n 1.0 } else { 0.0 }\n' % (j, float(sc[1]), j, vals[j])
    src += 'fn dsp(){\n%s  acc\n}\n' % dspbody
    return src


def run(tier, seed):
    import random
    quick = tier == 'quick'
    rep = Report(PID, tier, seed, 'model_checking')
    common.build_mmdump()
    mirs = [common.dump_mir('mimium_scheduler')[0], common.dump_mir('mimium_lang')[0]]
    rng = random.Random(seed)
    K, T = (3, 5) if quick else (4, 7)
    scen = scenarios(K, T, 32 if quick else 300, rng)
    scen2 = scenarios(2, 4, 12, rng)
    jobs = [(mirs, s, T, 5000 if quick else 30000) for s in scen] + [(mirs, s, 4, 5000) for s in scen2]
    # bursts: "regardless of how many tasks are pending" -- N tasks handed over in ONE window (global init / one dsp call), all with the same
    # symbolic time, N beyond any plausible fixed-size queue (a bounded hand-over queue, a fixed-capacity heap ...)
    for n in ((70, 260) if quick else (70, 260, 1030)):
        jobs.append((mirs, tuple(('init',) for _ in range(n)), 4, 5000 if quick else 30000, True))
        jobs.append((mirs, tuple(('dsp', 0) for _ in range(n)), 4, 5000 if quick else 30000, True))
    import multiprocessing as mp
    with mp.get_context('fork').Pool(16) as pool:
        results = pool.map(analyse, jobs, chunksize=1)
    npaths = nchecks = 0
    for r in results:
        for k in rep.stats:
            rep.stats[k] += r['solver'].get(k, 0)
        rep.functions.update(r['functions'])
        for k, v in r['stubs'].items():
            rep.stubs[k] = rep.stubs.get(k, 0) + v
        npaths += r['paths']
        nchecks += r['checks']
        tag = str(r['scenario']) if len(r['scenario']) <= 8 else '%d x %s (burst, shared time)' % (len(r['scenario']), r['scenario'][0])
        if len(r['scenario']) > 8:
            r['scenario_short'] = tag
        for u in r['unsupported']:
            rep.inconclusive.append('%s: unsupported: %s' % (tag, u[:200]))
        if r['truncated']:
            rep.inconclusive.append('%s: path limit' % tag)
        for f in r['findings'][:1]:
            rec = dict(scenario=r.get('scenario_short') or r['scenario'], T=r['T'], msg=f['msg'], kind=f['kind'], where=f.get('where'), times={k: b2f(v) for k, v in f['times'].items()})
            # replay: a generated mimium program on the real runtimes with the scheduler plugin
            src = witness_program([tuple(s) for s in r['scenario']], f['times'], r['T'], unit=r.get('shared'))
            p = os.path.join(common.CACHE, 'c11_witness_%d.mmm' % len(rep.violations))
            os.makedirs(common.CACHE, exist_ok=True)
            open(p, 'w').write(src)
            rep.replays += 1
            try:
                rr = common.replay(dict(src_path=p, backend='both', scheduler=True, steps=r['T'], timeout_s=20))
                vo = [o[0] if o else None for o in rr['vm'].get('outputs', [])]
                wo = [o[0] if o else None for o in rr['wasm'].get('outputs', [])]
                rec['replay'] = dict(program=src, vm_outputs=[b2f(x) if x is not None else None for x in vo], wasm_outputs=[b2f(x) if x is not None else None for x in wo],
                                     vm_panic=rr['vm'].get('panic'), wasm_panic=rr['wasm'].get('panic'))
                exp = expected_outputs([tuple(s) for s in r['scenario']], f['times'], r['T'], unit=r.get('shared'))
                rec['replay']['expected'] = exp
                confirmed = bool(rr['vm'].get('panic') or rr['wasm'].get('panic')) or [b2f(x) if x is not None else None for x in vo] != exp or [b2f(x) if x is not None else None for x in wo] != exp
            except Exception as e:
                rec['replay'] = dict(error=repr(e))
                confirmed = False
            if confirmed:
                rep.finding('%s:%s' % (f['kind'], f['msg'][:50]), rec)
            else:
                rep.inconclusive.append('%s: "%s" did not reproduce through a generated program on the real runtimes' % (tag, f['msg'][:80]))
        if len(rep.samples) < 6:
            rep.samples.append(dict(scenario=r.get('scenario_short') or r['scenario'], horizon=r['T'], feasible_paths=r['paths'], claims_checked=r['checks']))
    cov = dict(states=max(1, npaths), transitions=max(1, rep.stats['queries']), traces_validated_against_impl=rep.replays, scenarios=len(jobs), claims_checked=nchecks,
               bounds='bursts of 70 / 260 (thorough: 1030) tasks with one shared symbolic time handed over in one window (global init, one dsp call), horizon 4; K = %d tasks x horizon T = %d samples (+ all K=2,T=4 scenarios): scheduling points enumerated (global init / dsp of sample j / from a running task, incl. self-rescheduling chains), '
                      'task times symbolic f64 in [0, 2^40) satisfying the property precondition floor(time) > scheduling sample' % (K, T))
    assumptions = ['closure hand-over (RuntimeHandle::{get_arg_f64,get_arg_raw,resolve_closure,execute_closure}, WasmEngine::execute_function) is stubbed: executing a task = logging (id, sample) and issuing its child schedule calls',
                   'BinaryHeap is modelled as a list ordered by calling the crate\'s own Ord::cmp MIR; mpsc channel as FIFO list; Arc/Mutex as identity wrappers',
                   'real-thread timing and the audio driver loop are outside the claim']
    return rep.finish(cov, assumptions)


def expected_outputs(scen, times_bits, T, unit=False):
    """reference: task j fires at floor(time_j) if its scheduler ran; acc visible in dsp of the same sample"""
    K = len(scen)
    if unit:
        f0 = int(b2f(times_bits.get(0, 0)))
        return [float(K) if t >= f0 else 0.0 for t in range(T)]
    fire = {}
    for j in range(K):
        fire[j] = int(b2f(times_bits.get(j, 0)))
    ran = {}
    order = list(range(K))
    acc = 0.0
    out = []
    for t in range(T):
        for j in range(K):
            sc = scen[j]
            ok_ = sc[0] in ('init', 'dsp') or (sc[0] == 'task' and ran.get(sc[1]) is not None and ran[sc[1]] <= t)
            if sc[0] == 'dsp' and sc[1] >= t:
                ok_ = False
            if ok_ and fire[j] == t and j not in ran:
                ran[j] = t
                acc += float(2 ** j)
        out.append(acc)
    return out
