"""Per-program symbolic analysis shared by C01 / C03 / C05 (and the VM half of C02/C06/C07).

One call = one corpus program: compile with the real compiler (mmdump), then explore every feasible path of
k dsp steps on BOTH runtimes inside one solver context:
  * VM   : mirsym executes the MIR of Machine::execute & friends on the emitted bytecode,
  * WASM : wasmsym executes the emitted module; imports run the MIR of runtime/wasm.rs host functions.
All dsp input words (and, in inductive mode, all state words) are symbolic.
"""
import json
import os
import sys
import time
import traceback
import z3

sys.path.insert(0, os.path.dirname(os.path.dirname(os.path.abspath(__file__))))
from mirsym.mirparse import MirFile
from mirsym.layouts import Layouts
from mirsym.interp import Crate, Interp, Explorer, Unsupported, PanicReached, PathInfeasible, PathEnd, Finding
from mirsym.models import Models
from mirsym.smt import Smt, b2f, f2b
from mirsym.values import Sc, Ref, Agg, VecV
from mirsym import vmdriver
from mirsym.vmdriver import VmRun, skel_total
from wasmsym.driver import WasmRun
from wasmsym import hostwasm
from checks import common, schedrt

_CTX = {}


def get_crate(mir_paths):
    key = tuple(mir_paths)
    c = _CTX.get(key)
    if c is None:
        L = Layouts()
        for cname, rel in common.CRATES.items():
            if cname == 'mimium_cli' and not any('/mimium_cli.' in p for p in mir_paths):
                continue
            L.scan_dir(os.path.join(common.REPO, rel, 'src'))
        c = Crate([MirFile(p) for p in mir_paths], L, common.REPO)
        errs = vmdriver.check_layout(L) + hostwasm.check_layout(L)
        c.layout_errors = errs
        _CTX[key] = c
    return c


SPECIAL_WORDS = [0, f2b(1.0), f2b(-1.0), f2b(0.5), f2b(-0.0), f2b(float('inf')), f2b(float('-inf')), f2b(float('nan')),
                 f2b(2.5), f2b(1e300), f2b(5e-324), f2b(3.0), f2b(-2.75), f2b(100.0), f2b(0.1), f2b(7.0)]


def skel_leaves(sk, base=0, out=None):
    """[(addr, size, kind, len)] in layout order"""
    if out is None:
        out = []
    k = sk['k']
    if k == 'Delay':
        out.append((base, sk['len'] + 2, 'Delay', sk['len']))
    elif k in ('Mem', 'Feed'):
        out.append((base, sk['size'], k, sk['size']))
    else:
        off = base
        for c in sk['children']:
            skel_leaves(c, off, out)
            off += skel_total(c)
    return out


def words_equal_cond(smt, a, b):
    """z3 Bool: 64-bit words a,b (Sc) are bit-identical or both NaN patterns; None when trivially equal"""
    av, bv = a.v, b.v
    if a.t == 'f64':
        av = smt.fp_to_bits(av)
    if b.t == 'f64':
        bv = smt.fp_to_bits(bv)
    if isinstance(av, int) and isinstance(bv, int):
        if av == bv:
            return None
        fa, fb = b2f(av), b2f(bv)
        return z3.BoolVal(fa != fa and fb != fb)
    A = z3.BitVecVal(av, 64) if isinstance(av, int) else av
    B = z3.BitVecVal(bv, 64) if isinstance(bv, int) else bv
    if A.eq(B):
        return None
    fa = smt.fp_from_bits(A) if not isinstance(av, int) else smt.fpval(av)
    fb = smt.fp_from_bits(B) if not isinstance(bv, int) else smt.fpval(bv)
    # both words are (bit patterns of) the same float term up to rewriting: equal, or both NaN
    if z3.simplify(fa).eq(z3.simplify(fb)):
        return None
    return z3.Or(A == B, z3.And(z3.fpIsNaN(fa), z3.fpIsNaN(fb)))


class ProgramAnalysis(object):
    def __init__(self, path, mir_paths, steps=2, mode='bmc', backends=('vm', 'wasm'), scheduler=None,
                 query_timeout_ms=10000, max_paths=400, time_budget_s=120, seed=0, observers=None):
        self.path = path
        self.name = os.path.basename(path)[:-4]
        self.crate = get_crate(mir_paths)
        self.steps = steps
        self.mode = mode
        self.backends = backends
        self.scheduler = schedrt.is_sched(path) if scheduler is None else scheduler
        self.max_paths = max_paths
        self.time_budget_s = time_budget_s
        self.query_timeout_ms = query_timeout_ms
        self.seed = seed
        self.max_divergences = 3
        self.result = dict(program=self.name, path=path, mode=mode, steps=steps, status='ok', divergences=[], panics=[],
                           unsupported=[], inconclusive=[], paths=0, checks=0, checks_trivial=0, layout=[], notes=[])

    # ------------------------------------------------------------------------------------------
    def compile(self):
        self.cj = common.compile_program(self.path, self.scheduler)
        bc, wa = self.cj['bytecode'], self.cj['wasm']
        r = self.result
        r['accept'] = dict(bytecode=bc['ok'], wasm=wa['ok'], bytecode_panic=bc['panic'], wasm_panic=wa['panic'],
                           bytecode_errors=bc['errors'][:3], wasm_errors=wa['errors'][:3])
        return bc['ok'] and wa['ok'] and bc['panic'] is None and wa['panic'] is None

    def new_interp(self):
        smt = Smt(self.query_timeout_ms)
        it = Interp(self.crate, smt, Models())
        return smt, it

    # ------------------------------------------------------------------------------------------
    def run(self):
        t0 = time.time()
        r = self.result
        try:
            if self.crate.layout_errors:
                r['status'] = 'error'
                r['notes'] += self.crate.layout_errors
                return r
            if self.scheduler and self.mode == 'inductive':
                # the pending-task queues are part of the state and are not made symbolic: scheduler programs are analysed from the
                # initial state only (BMC)
                r['status'] = 'inductive_not_applicable'
                return r
            if not self.compile():
                r['status'] = 'rejected'
                return r
            pj = self.cj['bytecode']['program']
            if pj.get('io') is None or pj.get('dsp_index') is None:
                r['status'] = 'no_dsp_io'
                return r
            self.pj = pj
            self.dsp_skel = pj['fns'][pj['dsp_index']]['state_skeleton']
            self.state_size = skel_total(self.dsp_skel)
            r['state_size'] = self.state_size
            self.leaves = skel_leaves(self.dsp_skel)
            r['leaves'] = self.leaves
            wsk = self.cj['wasm'].get('dsp_state_skeleton')
            if wsk is not None and wsk != self.dsp_skel:
                r['layout'].append('bytecode and wasm outputs publish different dsp state skeletons')
            self.explore()
            if self.mode == 'bmc' and not r['divergences'] and any('solver unknown' in x for x in r['inconclusive']):
                found = self.probe_special()
                if found:
                    r['divergences'] += found[:1]
                    r['notes'].append('divergence witness found by special-value probing after solver timeout')
        except Exception as e:   # machinery failure: never a pass, never a violation
            r['status'] = 'error'
            r['notes'].append('exception: %r\n%s' % (e, traceback.format_exc()[-1500:]))
        r['wall_s'] = round(time.time() - t0, 2)
        return r

    # ------------------------------------------------------------------------------------------
    def make_inputs(self, it, k, n_in):
        rows = getattr(self, 'concrete_rows', None)
        if rows is not None:
            return [Sc('u64', w) for w in rows[k]]
        return [Sc('u64', z3.BitVec('in_%d_%d' % (k, c), 64)) for c in range(n_in)]

    def probe_special(self, max_runs=160):
        """witness search only (never a 'holds' verdict): when the solver answers `unknown` on an equality, run both
        encoders concretely on a grid of special operand values (exact python fmod) and report differing runs."""
        import itertools
        n_in = self.pj['io']['input']
        grid = SPECIAL_WORDS[:12]
        combos = list(itertools.product(grid, repeat=n_in)) if n_in else [()]
        found = []
        saved = (self.result, self.steps, self.mode)
        for combo in combos[:max_runs]:
            self.concrete_rows = [list(combo) for _ in range(self.steps)]
            self.result = dict(program=self.name, mode=self.mode, steps=self.steps, status='ok', divergences=[], panics=[],
                               unsupported=[], inconclusive=[], paths=0, checks=0, checks_trivial=0, layout=[], notes=[])
            try:
                self.explore()
            except Exception:
                continue
            for d in self.result['divergences']:
                d['inputs'] = [list(combo) for _ in range(d['step'] + 1)]
                d['by_probe'] = True
                found.append(d)
            if found:
                break
        self.concrete_rows = None
        self.result = saved[0]
        return found

    def init_state_words(self, smt):
        """inductive mode: arbitrary state satisfying the representation invariant of delay cells"""
        ws = [z3.BitVec('s_%d' % i, 64) for i in range(self.state_size)]
        for (addr, size, kind, ln) in self.leaves:
            if kind == 'Delay' and ln > 0:
                smt.add(z3.ULT(ws[addr], z3.BitVecVal(ln, 64)))        # read_idx  < len
                smt.add(z3.ULT(ws[addr + 1], z3.BitVecVal(ln, 64)))    # write_idx < len
        return [Sc('u64', w) for w in ws]

    def explore(self):
        r = self.result
        smt, it = self.new_interp()
        self.smt, self.it = smt, it
        ex = Explorer(smt, self.max_paths)
        self.ex = ex
        deadline = time.time() + self.time_budget_s
        it.deadline = deadline
        use_vm = 'vm' in self.backends
        use_wasm = 'wasm' in self.backends
        an = self

        def path(it):
            if len(an.result['divergences']) >= an.max_divergences:
                raise PathEnd()
            if time.time() > deadline:
                raise Unsupported('time budget of %ds for this program exhausted' % an.time_budget_s)
            if an.scheduler:
                vm = schedrt.make_vm(it, an.pj) if use_vm else None
                wr = schedrt.make_wasm(it, an.cj['wasm']) if use_wasm else None
            else:
                vm = VmRun(it, an.pj) if use_vm else None
                wr = WasmRun(it, an.cj['wasm']) if use_wasm else None
            trace = []
            an.cur_trace = trace
            an.cur_vm, an.cur_wr = vm, wr
            if vm:
                an.install_observers(it, vm)
                vm.run_main()
            if wr:
                wr.run_main()
            init = None
            if an.mode == 'inductive':
                init = an.init_state_words(it.smt)
                if vm:
                    # state storage is sized by execute_idx at the first dsp call; give it its layout size now
                    vm.state_words()[:] = list(init)
                if wr:
                    wr.host.state_words()[:] = list(init)
            n_in = (vm or wr).n_in
            for k in range(an.steps):
                now = Sc('u64', z3.BitVec('now0', 64) + k) if an.mode == 'inductive' else Sc('u64', k)
                if an.mode == 'inductive' and k == 0:
                    it.smt.add(z3.ULT(now.v, z3.BitVecVal(1 << 52, 64)))
                ins = an.make_inputs(it, k, n_in)
                step = dict(k=k, inputs=ins)
                if vm:
                    vm.now[0] = now
                    vm.set_input(ins)
                    an.cur_step_accesses = []
                    rc, outs = vm.run_dsp()
                    step['vm_out'] = outs
                    step['vm_state'] = list(vm.state_words())
                    step['vm_pos'] = vm.state_pos()
                    step['vm_rc'] = rc
                    step['accesses'] = an.cur_step_accesses
                if wr:
                    wr.set_input(ins)
                    rc2, outs2 = wr.run_dsp(now)
                    step['wasm_out'] = outs2
                    step['wasm_state'] = list(wr.host.state_words())
                    step['wasm_pos'] = wr.host.state_pos()
                trace.append(step)
                an.after_step(it, step, init)
            return trace

        results = ex.explore(it, path)
        r['paths'] = len(results)
        r['truncated'] = ex.truncated
        for f in ex.findings:
            self.record_panic(f)
        for msg, where in ex.unsupported:
            r['unsupported'].append('%s @ %s' % (msg, where))
        r['solver'] = smt.stats.as_dict()
        r['functions'] = dict(it.functions_used)
        r['stubs'] = dict(it.models.used)
        if ex.truncated:
            r['inconclusive'].append('path limit %d reached' % self.max_paths)

    # hooks for subclasses / property-specific checks ------------------------------------------------
    def install_observers(self, it, vm):
        pass

    def after_step(self, it, step, init):
        """C01: compare outputs and state words of the two runtimes on this path after this step"""
        if 'vm_out' not in step or 'wasm_out' not in step:
            return
        r = self.result
        smt = it.smt
        pairs = []
        vo, wo = step['vm_out'], step['wasm_out']
        if len(vo) != len(wo):
            self.add_divergence(it, step, 'output word count differs: vm %d, wasm %d' % (len(vo), len(wo)), None, init)
            return
        for c, (a, b) in enumerate(zip(vo, wo)):
            pairs.append(('out[%d]' % c, a, b))
        vs, ws = step['vm_state'], step['wasm_state']
        n = max(len(vs), len(ws))
        for i in range(n):
            a = vs[i] if i < len(vs) else Sc('u64', 0)
            b = ws[i] if i < len(ws) else Sc('u64', 0)     # the WASM state vector grows lazily from zero
            pairs.append(('state[%d]' % i, a, b))
        for what, a, b in pairs:
            r['checks'] += 1
            c = words_equal_cond(smt, a, b)
            if c is None:
                r['checks_trivial'] += 1
                continue
            c = z3.simplify(c)
            if z3.is_true(c):
                r['checks_trivial'] += 1
                continue
            res = z3.unknown
            exact = getattr(smt, 'fmod_apps', None)
            if exact:
                # first look for a counterexample inside the region where the float-remainder axioms are exact
                res = smt.check(z3.Not(c), *exact)
            if res != z3.sat:
                res = smt.check(z3.Not(c))
            if res == z3.unsat:
                continue
            if res == z3.unknown:
                r['inconclusive'].append('step %d %s: solver unknown (timeout %d ms)' % (step['k'], what, self.query_timeout_ms))
                continue
            self.add_divergence(it, step, '%s differs' % what, smt.model() if smt.last_sat else None, init)
            raise PathEnd()

    def model_inputs(self, model, upto, n_in):
        rows = []
        for k in range(upto + 1):
            row = []
            for c in range(n_in):
                v = model.eval(z3.BitVec('in_%d_%d' % (k, c), 64), model_completion=True)
                row.append(v.as_long())
            rows.append(row)
        return rows

    def add_divergence(self, it, step, what, model, init):
        r = self.result
        n_in = len(step['inputs'])
        d = dict(step=step['k'], what=what, mode=self.mode, decisions=list(it.decisions))
        if model is not None:
            d['inputs'] = self.model_inputs(model, step['k'], n_in)
            if init is not None:
                d['init_state'] = [model.eval(w.v, model_completion=True).as_long() for w in init]
                d['now0'] = model.eval(z3.BitVec('now0', 64), model_completion=True).as_long()
        r['divergences'].append(d)

    def record_panic(self, f):
        d = dict(kind=f.kind, msg=f.msg, where=f.where, decisions=f.decisions, mode=self.mode)
        if f.model is not None:
            n_in = self.pj['io']['input'] if self.pj.get('io') else 0
            try:
                d['inputs'] = self.model_inputs(f.model, self.steps - 1, n_in)
                if self.mode == 'inductive':
                    d['init_state'] = [f.model.eval(z3.BitVec('s_%d' % i, 64), model_completion=True).as_long() for i in range(self.state_size)]
                    d['now0'] = f.model.eval(z3.BitVec('now0', 64), model_completion=True).as_long()
            except Exception as e:
                d['model_error'] = repr(e)
        self.result['panics'].append(d)


# ---------------------------------------------------------------------------------------------------
# concrete replay on the real runtimes
# ---------------------------------------------------------------------------------------------------
def same_word(a, b):
    if a == b:
        return True
    fa, fb = b2f(a), b2f(b)
    return fa != fa and fb != fb


def replay_divergence(path, d, steps, scheduler=None):
    """run the model on the real VM and the real WASM runtime; returns (confirmed, detail)"""
    scheduler = schedrt.is_sched(path) if scheduler is None else scheduler
    spec = dict(src_path=path, backend='both', scheduler=scheduler, steps=d['step'] + 1, inputs=d.get('inputs', []),
                init_state=d.get('init_state'), now_start=d.get('now0', 0), timeout_s=20)
    rr = common.replay(spec)
    vm, wa = rr.get('vm', {}), rr.get('wasm', {})
    detail = dict(spec=spec, vm_outputs=vm.get('outputs'), wasm_outputs=wa.get('outputs'), vm_panic=vm.get('panic'),
                  wasm_panic=wa.get('panic'), vm_crash=vm.get('crash'), wasm_crash=wa.get('crash'),
                  vm_state=vm.get('state_after'), wasm_state=wa.get('state_after'))
    if vm.get('panic') or wa.get('panic') or vm.get('crash') or wa.get('crash') or vm.get('timeout') or wa.get('timeout'):
        detail['reason'] = 'panic/crash/timeout on a real runtime'
        return True, detail
    vo, wo = vm.get('outputs') or [], wa.get('outputs') or []
    for k in range(min(len(vo), len(wo))):
        if len(vo[k]) != len(wo[k]) or any(not same_word(a, b) for a, b in zip(vo[k], wo[k])):
            detail['reason'] = 'outputs differ at step %d' % k
            return True, detail
    vs, ws = vm.get('state_after') or [], wa.get('state_after') or []
    for k in range(min(len(vs), len(ws))):
        a, b = vs[k], ws[k]
        n = max(len(a), len(b))
        a = a + [0] * (n - len(a))
        b = b + [0] * (n - len(b))
        if any(not same_word(x, y) for x, y in zip(a, b)):
            detail['reason'] = 'state words differ after step %d' % k
            return True, detail
    return False, detail


def replay_panic(path, d, steps, backend='vm', scheduler=None):
    scheduler = schedrt.is_sched(path) if scheduler is None else scheduler
    spec = dict(src_path=path, backend=backend, scheduler=scheduler, steps=steps, inputs=d.get('inputs', []),
                init_state=d.get('init_state'), now_start=d.get('now0', 0), timeout_s=20)
    rr = common.replay(spec)
    b = rr.get(backend, {})
    detail = dict(spec=spec, panic=b.get('panic'), crash=b.get('crash'), timeout=b.get('timeout'), outputs=b.get('outputs'))
    return bool(b.get('panic') or b.get('crash') or b.get('timeout')), detail


# ---------------------------------------------------------------------------------------------------
# concrete-mode self test of the encoders against the real runtimes
# ---------------------------------------------------------------------------------------------------
def selftest(path, mir_paths, steps, seed, scheduler=None):
    """run mirsym-VM and wasmsym with concrete inputs and compare bit-for-bit with the real runtimes"""
    scheduler = schedrt.is_sched(path) if scheduler is None else scheduler
    import random
    import zlib
    rng = random.Random(seed * 7919 + zlib.crc32(os.path.basename(path).encode()) % 1000)
    an = ProgramAnalysis(path, mir_paths, steps=steps, scheduler=scheduler)
    if not an.compile():
        return dict(program=an.name, status='rejected')
    pj = an.cj['bytecode']['program']
    if pj.get('io') is None or pj.get('dsp_index') is None:
        return dict(program=an.name, status='no_dsp_io')
    n_in = pj['io']['input']
    rows = []
    for k in range(steps):
        rows.append([rng.choice(SPECIAL_WORDS) if rng.random() < 0.5 else f2b(rng.uniform(-4, 4)) for _ in range(n_in)])
    real = common.replay(dict(src_path=path, backend='both', scheduler=scheduler, steps=steps, inputs=rows, timeout_s=20))
    rvm, rwa = real.get('vm', {}), real.get('wasm', {})
    if rvm.get('compile_ok') != rwa.get('compile_ok'):
        # e.g. the emitted WASM module does not validate / instantiate while the VM runs the program
        return dict(program=an.name, path=path, status='accept_mismatch', inputs=rows,
                    detail=dict(vm_ok=rvm.get('compile_ok'), wasm_ok=rwa.get('compile_ok'), vm_errors=(rvm.get('errors') or [])[:2], wasm_errors=(rwa.get('errors') or [])[:2]))
    smt, it = an.new_interp()
    ex = Explorer(smt, 4)
    out = {}

    def p(it):
        vm = schedrt.make_vm(it, pj) if scheduler else VmRun(it, pj)
        wr = schedrt.make_wasm(it, an.cj['wasm']) if scheduler else WasmRun(it, an.cj['wasm'])
        vm.run_main()
        wr.run_main()
        vo, wo, vs, ws = [], [], [], []
        for k in range(steps):
            ins = [Sc('u64', w) for w in rows[k]]
            vm.now[0] = Sc('u64', k)
            vm.set_input(ins)
            wr.set_input(ins)
            _, o = vm.run_dsp()
            _, o2 = wr.run_dsp(Sc('u64', k))
            vo.append([it.smt.fp_to_bits(x.v) if x.t == 'f64' else x.v for x in o])
            wo.append([x.v for x in o2])
            vs.append([x.v for x in vm.state_words()])
            ws.append([(it.smt.fp_to_bits(x.v) if x.t == 'f64' else x.v) for x in wr.host.state_words()])
        out.update(vo=vo, wo=wo, vs=vs, ws=ws)
        return None
    res = ex.explore(it, p)
    status = res[0][0] if res else 'none'
    mism = []
    if status == 'ok':
        rv, rw = real.get('vm', {}), real.get('wasm', {})
        if rv.get('panic') or rw.get('panic') or rv.get('crash') or rw.get('crash'):
            mism.append('real runtime panicked but the encoders did not: %s / %s' % (rv.get('panic'), rw.get('panic')))
        else:
            for k in range(steps):
                for tag, mine, theirs in (('vm_out', out['vo'][k], rv['outputs'][k]), ('wasm_out', out['wo'][k], rw['outputs'][k]),
                                          ('vm_state', out['vs'][k], rv['state_after'][k]), ('wasm_state', out['ws'][k], rw['state_after'][k])):
                    if not all(isinstance(x, int) for x in mine):
                        mism.append('%s step %d: symbolic value in concrete run' % (tag, k))
                    elif len(mine) != len(theirs) or any(not same_word(a, b) for a, b in zip(mine, theirs)):
                        mism.append('%s step %d: encoder %s real %s' % (tag, k, mine, theirs))
    elif status == 'panic':
        # the encoders model the dev profile (overflow checks, debug_assert); compare with the dev build of the real code too
        bad = False
        for dbg in (False, True):
            rr = real if not dbg else common.replay(dict(src_path=path, backend='both', scheduler=scheduler, steps=steps, inputs=rows, timeout_s=20), debug=True)
            rv, rw = rr.get('vm', {}), rr.get('wasm', {})
            if rv.get('panic') or rw.get('panic') or rv.get('crash') or rw.get('crash') or rv.get('timeout') or rw.get('timeout'):
                bad = True
        if not bad and 'wasm trap' in str(res[0][1]):
            # a trap inside dsp is not fatal on the real WasmDspRuntime: run_dsp logs `WASM DSP execution error` and goes on with
            # stale outputs, so there is nothing to compare from that step on; the trap itself is a C03 obligation
            return dict(program=an.name, status='match', mismatches=[], inputs=rows, note='wasm trap inside dsp (swallowed by run_dsp): %s' % (res[0][1],))
        if not bad:
            mism.append('encoder reports panic %r but the real runtimes (release and dev) ran through' % (res[0][1],))
    else:
        return dict(program=an.name, status=status, detail=str(res[0][1]) if res else '', inputs=rows)
    return dict(program=an.name, status='mismatch' if mism else 'match', mismatches=mism[:6], inputs=rows)
