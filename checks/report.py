"""Aggregation of per-program analysis results into VIOLATION / KNOWN-FINDING lines and an evidence file."""
import os
import sys
import time

from checks import common


class Report(object):
    def __init__(self, pid, tier, seed, level):
        self.pid, self.tier, self.seed, self.level = pid, tier, seed, level
        self.t0 = time.time()
        self.known = common.load_known_findings().get(pid, {})
        self.violations = []
        self.known_hits = {}
        self.inconclusive = []
        self.skipped = []
        self.stats = dict(queries=0, sat=0, unsat=0, unknown=0, solver_s=0.0, paths=0, mir_statements=0,
                          xcheck_sampled=0, xcheck_agree=0, xcheck_other_unknown=0, xcheck_disagree=0)
        self.functions = {}
        self.stubs = {}
        self.replays = 0
        self.samples = []
        self.machinery_errors = []
        self.programs = set()
        self.extra = {}

    def absorb(self, r):
        for k in self.stats:
            self.stats[k] += (r.get('solver') or {}).get(k, 0)
        self.functions.update(r.get('functions') or {})
        for k, v in (r.get('stubs') or {}).items():
            self.stubs[k] = self.stubs.get(k, 0) + v
        tag = '%s[%s%s]' % (r.get('program'), r.get('mode'), ('/' + '+'.join(r['backends'])) if r.get('backends') else '')

        if r.get('status') == 'error':
            self.inconclusive.append('%s: machinery error: %s' % (tag, (r.get('notes') or [''])[0][:300]))
            return False
        if r.get('status') in ('rejected', 'no_dsp_io', 'skipped_large_state', 'inductive_not_applicable'):
            self.skipped.append('%s: %s' % (r.get('program'), r['status']))
            return False
        self.programs.add(r.get('program'))
        for u in r.get('unsupported', []):
            self.inconclusive.append('%s: unsupported: %s' % (tag, u[:200]))
        for u in r.get('inconclusive', []):
            self.inconclusive.append('%s: %s' % (tag, u[:200]))
        return True

    def finding(self, key, rec):
        """a replay-confirmed violation of the property, identified by `key`"""
        if key in self.known:
            self.known_hits.setdefault(key, rec)
        else:
            self.violations.append(rec)

    def finish(self, coverage, assumptions):
        for key in sorted(self.known_hits):
            line = self.known[key]
            txt = line.split('key=%s' % key, 1)[1].strip()
            print('KNOWN-FINDING: property=%s key=%s %s' % (self.pid, key, txt))
        for i, v in enumerate(self.violations):
            p = common.save_replay(self.pid, i, v)
            print('VIOLATION property=%s replay=%s' % (self.pid, p))
            common.log('  ' + str({k: v[k] for k in v if k not in ('replay', 'model')})[:400])
        if self.stats.get('xcheck_disagree'):
            self.machinery_errors.append('SOLVER-DISAGREEMENT property=%s: %d `unsat` verdict(s) of z3 were answered `sat` by cvc5 or z3 4.8.12 (queries kept under /tmp)' % (self.pid, self.stats['xcheck_disagree']))
        inconc = sorted(set(self.inconclusive))
        loss, gap_keys = common.coverage_gate(self.pid, self.tier, inconc)
        for ln in loss:
            print(ln)
            self.machinery_errors.append(ln)
        for m in self.machinery_errors:
            common.log('MACHINERY ERROR (exit 2): %s' % m)
        cov = dict(coverage)
        cov.setdefault('samples', self.samples or [dict(note='nothing analysed')])
        cov.update(solver=self.stats, n_functions_encoded=len(self.functions),
                   functions_encoded=dict(sorted(self.functions.items())[:400]), stubs_used=self.stubs,
                   skipped=sorted(set(self.skipped)), inconclusive=inconc[:200], n_inconclusive=len(inconc),
                   confirmed_known=sorted(self.known_hits), model_gap_keys=gap_keys, coverage_loss=loss, replays_on_real_build=self.replays,
                   violations=[{k: v[k] for k in v if k not in ('replay', 'model')} for v in self.violations][:50])
        cov.update(self.extra)
        common.write_evidence(self.pid, self.tier, self.seed, self.level, cov, assumptions, time.time() - self.t0, len(self.violations))
        if self.violations:
            return 1
        if self.machinery_errors:
            return 2
        return 0
