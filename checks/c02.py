"""C02 — core language follows call-by-value semantics with per-call-site state (bounded model checking against a
reference semantics).

Implementation side: mirsym executes the real VM (Machine::execute MIR) on the bytecode the real front end + mirgen +
bytecodegen produce for each corpus program.  Oracle side: checks/lang.py evaluates the same program (held as abstract
syntax, rendered to source for the compiler) by the rules in the property text, producing SMT terms.  z3 decides, for
k dsp steps from the initial state and ALL input values, that every output word of the VM equals the reference.
"""
import os
import sys
import time
import z3

sys.path.insert(0, os.path.dirname(os.path.dirname(os.path.abspath(__file__))))
from checks import common, progcheck, lang, c02_corpus
from checks.report import Report
from checks.run_programs import run_jobs
from mirsym.interp import PanicReached, PathEnd, Unsupported
from mirsym.values import Sc
from mirsym import smt as S

PID = 'C02'
GDIR = os.path.join(common.CACHE, 'c02')


class RefMismatch(PanicReached):
    def __init__(self, msg):
        PanicReached.__init__(self, msg, 'semantics')


def flatten(v):
    if isinstance(v, tuple):
        out = []
        for x in v:
            out += flatten(x)
        return out
    if isinstance(v, dict):
        out = []
        for k in v:
            out += flatten(v[k])
        return out
    return [v]


class SemanticsAnalysis(progcheck.ProgramAnalysis):
    def __init__(self, prog_name=None, **kw):
        kw['backends'] = ('vm',)
        progcheck.ProgramAnalysis.__init__(self, **kw)
        self.prog_name = prog_name
        self.ast = c02_corpus.PROGRAMS[prog_name]
        self.result['backends'] = ['vm']
        self.ref = None

    def install_observers(self, it, vm):
        # a fresh reference evaluator per path (its state cells are path-local terms)
        self.ref = lang.RefEval(it.smt, self.ast, lambda X, Y: it.models.fmod(it, X, Y))
        self.ref.run_globals()

    def after_step(self, it, step, init):
        r = self.result
        smt = it.smt
        ins = [smt.fp_from_bits(w.v) if not isinstance(w.v, int) else smt.fpval(w.v) for w in step['inputs']]
        now = smt.fpval(S.f2b(float(step['k'])))
        try:
            out = self.ref.step(ins, now)
        except lang.RefError as e:
            raise Unsupported('reference evaluator: %s' % e)
        for a in self.ref.assumptions:
            smt.add(a)
        self.ref.assumptions = []
        feas = smt.check()
        if feas == z3.unknown:
            feas = smt.check()           # a time-out under load is not a verdict: ask once more
        if feas == z3.unknown:
            r['inconclusive'].append('step %d: solver unknown on the feasibility of the path under the delay-time assumptions' % step['k'])
            raise PathEnd()
        if feas != z3.sat:
            raise PathEnd()
        exp = flatten(out)
        got = step['vm_out']
        if len(exp) != len(got):
            raise RefMismatch('dsp yields %d words, the reference semantics %d' % (len(got), len(exp)))
        for c, (g, e) in enumerate(zip(got, exp)):
            r['checks'] += 1
            cond = progcheck.words_equal_cond(smt, g, Sc('f64', e))
            if cond is None:
                r['checks_trivial'] += 1
                continue
            # C02 speaks about sample VALUES: +0.0 and -0.0 are the same sample (the compiler lowers `-x` to `0.0 - x`)
            gf = smt.fp_from_bits(g.v) if not isinstance(g.v, int) else smt.fpval(g.v)
            cond = z3.Or(cond, z3.fpEQ(gf, e))
            cond = z3.simplify(cond)
            if z3.is_true(cond):
                r['checks_trivial'] += 1
                continue
            res = z3.unknown
            exact = getattr(smt, 'fmod_apps', None)
            if exact:
                res = smt.check(z3.Not(cond), *exact)
            if res != z3.sat:
                res = smt.check(z3.Not(cond))
            if res == z3.unsat:
                continue
            if res == z3.unknown:
                r['inconclusive'].append('step %d out[%d]: solver unknown' % (step['k'], c))
                continue
            m = smt.model()
            d = dict(step=step['k'], what='output %d differs from the reference semantics' % c, mode=self.mode,
                     inputs=self.model_inputs(m, step['k'], len(step['inputs'])),
                     expected=[self.eval_word(m, x) for x in exp], got=[self.eval_word(m, smt.fp_from_bits(w.v) if not isinstance(w.v, int) else smt.fpval(w.v)) for w in got])
            r['divergences'].append(d)
            raise PathEnd()

    def eval_word(self, m, fpterm):
        try:
            v = m.eval(z3.fpToIEEEBV(fpterm), model_completion=True)
            return v.as_long()
        except Exception:
            return None


def confirm(path, d, ast):
    """replay on the real VM and compare with the CONCRETE reference evaluation of the same inputs"""
    steps = d['step'] + 1
    rr = common.replay(dict(src_path=path, backend='vm', steps=steps, inputs=d['inputs'], timeout_s=20))
    vm = rr.get('vm', {})
    detail = dict(real_outputs=vm.get('outputs'), panic=vm.get('panic'), crash=vm.get('crash'))
    if vm.get('panic') or vm.get('crash'):
        # crashes are C03's business; for C02 a crash is also not the reference behaviour
        return True, detail
    # concrete reference run with a private solver-free evaluation: use z3 to fold the closed terms
    from mirsym.smt import Smt
    smt = Smt(5000)
    smt.begin_path()
    import ctypes
    from mirsym.models import _libm2

    def fm(X, Y):
        x, y = z3.simplify(X), z3.simplify(Y)
        try:
            fx, fy = float(x.as_string().replace('oo', 'inf')) if False else fp_to_float(x), fp_to_float(y)
            return z3.FPVal(_libm2('fmod')(fx, fy), S.F64)
        except Exception:
            return smt.ufun('fmod', 2)(X, Y)
    ref = lang.RefEval(smt, ast, fm)
    ref.run_globals()
    exp_all = []
    for k in range(steps):
        row = d['inputs'][k] if k < len(d['inputs']) else []
        ins = [smt.fpval(w) for w in row]
        out = ref.step(ins, z3.FPVal(float(k), S.F64))
        exp_all.append([z3.simplify(x) for x in flatten(out)])
    real = vm.get('outputs') or []
    detail['reference'] = [[str(x) for x in row] for row in exp_all]
    for k in range(min(steps, len(real))):
        for c, e in enumerate(exp_all[k]):
            if c >= len(real[k]):
                return True, detail
            try:
                ef = fp_to_float(e)
            except Exception:
                continue     # transcendental left uninterpreted: cannot judge this word concretely
            rf = S.b2f(real[k][c])
            if not (ef == rf or (ef != ef and rf != rf)):
                detail['first_difference'] = dict(step=k, channel=c, reference=ef, real=rf)
                return True, detail
    return False, detail


def fp_to_float(x):
    x = z3.simplify(x)
    if not z3.is_fp_value(x):
        raise ValueError('not a value')
    if x.isNaN():
        return float('nan')
    if x.isInf():
        return float('-inf') if x.isNegative() else float('inf')
    bv = z3.simplify(z3.fpToIEEEBV(x))
    return S.b2f(bv.as_long())


def run(tier, seed):
    quick = tier == 'quick'
    rep = Report(PID, tier, seed, 'model_checking')
    common.build_mmdump()
    mirs = common.prog_mirs()
    os.makedirs(GDIR, exist_ok=True)
    steps = 4 if quick else 8
    budget = 90 if quick else 400
    qto = 5000 if quick else 30000
    jobs, names = [], []
    only = os.environ.get('VERIF_ONLY')
    for n, p in sorted(c02_corpus.PROGRAMS.items()):
        if only and not n.startswith(tuple(only.split(','))):
            continue
        f = os.path.join(GDIR, n + '.mmm')
        open(f, 'w').write(lang.render_program(p))
        names.append(n)
        jobs.append(('analysis', dict(cls=('checks.c02', 'SemanticsAnalysis'), prog_name=n, path=f, mir_paths=mirs, steps=steps, mode='bmc',
                                      query_timeout_ms=qto, time_budget_s=budget, seed=seed)))
    res = run_jobs(jobs)
    npaths = nchecks = 0
    for r, n in zip(res, names):
        r['program'] = n
        if not rep.absorb(r):
            if r.get('status') == 'rejected':
                rep.finding('rejected:' + n, dict(program=n, msg='a core-language program of the corpus is rejected by the compiler', accept=r.get('accept')))
            continue
        npaths += r.get('paths', 0)
        nchecks += r.get('checks', 0)
        path = os.path.join(GDIR, n + '.mmm')
        done = False
        for d in r.get('divergences', []):
            if done:
                break
            rep.replays += 1
            try:
                ok, detail = confirm(path, d, c02_corpus.PROGRAMS[n])
            except Exception as e:
                ok, detail = False, dict(error=repr(e))
            rec = dict(program=n, source=lang.render_program(c02_corpus.PROGRAMS[n]), step=d['step'], msg=d['what'], model=dict(inputs=d['inputs']), replay=detail)
            if ok:
                done = True
                rep.finding(n, rec)
            else:
                rep.inconclusive.append('%s: "%s" has a model that does not reproduce concretely (uninterpreted float function)' % (n, d['what']))
        for d in r.get('panics', []):
            if d['kind'] == 'semantics' and not done:
                done = True
                rep.finding(n, dict(program=n, msg=d['msg']))
            elif not done:
                # a crash is not the reference behaviour either: confirm on the real build and report under the program's key
                rep.replays += 1
                from checks import c03
                okc, det = c03.confirm(path, d, r['steps'], 'vm')
                if okc:
                    done = True
                    rep.finding(n, dict(program=n, msg='VM crashes / leaves its storage where the reference semantics defines a value: ' + d['msg'], model=dict(inputs=d.get('inputs')), replay=det))
                else:
                    rep.inconclusive.append('%s: crash obligation (%s) did not reproduce on the real build' % (n, d['msg'][:70]))
        if len(rep.samples) < 8:
            rep.samples.append(dict(program=n, steps=r['steps'], feasible_paths=r['paths'], outputs_compared=r.get('checks'), decided_syntactically=r.get('checks_trivial')))
    # ---- leaf kernel: the delay ring buffer, decided by Kani / CBMC on the compiled code for every length <= 4 and all inputs ------
    from checks import kani_leaf
    kres = kani_leaf.run_kani() if not os.environ.get('VERIF_ONLY') else dict(status='skipped', harnesses={}, covers=[], wall_s=0, cbmc_s=0)
    if kres['status'] == 'failed':
        rep.replays += 1
        okk, kdet = kani_leaf.confirm_on_real_vm()
        bad = sorted(h for h, v in kres['harnesses'].items() if v['verdict'] != 'SUCCESSFUL')
        if okk:
            rep.finding('kani:' + '+'.join(bad), dict(program='delay ring buffer (Ringbuffer::process)', msg='Kani harness fails: %s' % {h: kres['harnesses'][h]['failed_checks'] for h in bad}, replay=kdet))
        else:
            rep.inconclusive.append('kani: harness %s fails (%s) but no divergence was found on the real VM with ring lengths 2..5' % (bad, [kres['harnesses'][h]['failed_checks'] for h in bad]))
    elif kres['status'] == 'error':
        rep.machinery_errors.append('kani leaf harnesses: %s' % kres.get('reason'))
    rep.stats['solver_s'] += kres.get('cbmc_s') or 0
    rep.extra['kani'] = dict(status=kres['status'], harnesses=kres['harnesses'], covers=kres['covers'], wall_s=kres['wall_s'], cbmc_s=kres.get('cbmc_s'),
                             bounds='ring length 1..=4, 6 consecutive calls, all u64 input / time / cursor / content words; unwind 8 with unwinding assertions',
                             functions=['runtime::vm::ringbuffer::Ringbuffer::new', 'runtime::vm::ringbuffer::Ringbuffer::process'])
    cov = dict(states=max(1, npaths), transitions=max(1, rep.stats['queries']), traces_validated_against_impl=rep.replays, programs=len(rep.programs), outputs_compared=nchecks,
               bounds='%d corpus programs (operators, intrinsics, let/tuple/record destructuring, if, functions, pipes, globals, self / tuple self, mem, delay, now, samplerate, closures reading and assigning captures, higher-order functions); '
                      'BMC %d dsp steps from the initial state, all input words symbolic' % (len(names), steps))
    assumptions = ['the reference evaluator (checks/lang.py, ~400 lines) is the oracle: call-by-value, one state cell per textual call site per call path, untaken `if` arms keep their state',
                   'conditions are comparison results (truthiness of arbitrary numbers is not specified); delay times are assumed inside 1..n-1',
                   '`%` and transcendental functions are the same uninterpreted functions on both sides (IEEE fmod / libm), min/max as Rust f64::min/max',
                   'program dimension = finite corpus; only the VM backend (C01 relates WASM to it)',
                   'Kani harnesses (cfg(kani), hook commit 73dfb2e) cover the delay kernel only; CBMC + its default SAT back end are trusted']
    return rep.finish(cov, assumptions)
