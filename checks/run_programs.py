"""Parallel driver: runs ProgramAnalysis-style jobs over the corpus with a process pool."""
import multiprocessing as mp
import os
import sys
import time

sys.path.insert(0, os.path.dirname(os.path.dirname(os.path.abspath(__file__))))


def _job(args):
    kind, kw = args
    from checks import progcheck
    try:
        if kind == 'analysis':
            cls = kw.pop('cls', None)
            if cls:
                mod, name = cls
                import importlib
                C = getattr(importlib.import_module(mod), name)
            else:
                C = progcheck.ProgramAnalysis
            return C(**kw).run()
        if kind == 'selftest':
            return progcheck.selftest(**kw)
    except Exception as e:
        import traceback
        return dict(program=os.path.basename(kw.get('path', '?'))[:-4], status='error', notes=['%r\n%s' % (e, traceback.format_exc()[-1500:])],
                    divergences=[], panics=[], unsupported=[], inconclusive=[], paths=0, checks=0, checks_trivial=0, mode=kw.get('mode'))
    return None


def run_jobs(jobs, nproc=None):
    nproc = nproc or min(16, os.cpu_count() or 4)
    if len(jobs) <= 1 or nproc == 1:
        return [_job(j) for j in jobs]
    ctx = mp.get_context('fork')
    with ctx.Pool(nproc, maxtasksperchild=8) as pool:
        return pool.map(_job, jobs, chunksize=1)
