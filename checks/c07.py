"""C07 — hot swap after an edit preserves the state of untouched signal paths (bounded model checking, VM + plan layer).

Voice programs (dsp returns a tuple of independent stateful voices) and scripted edits (insert / delete / replace a voice,
change a constant, nest a voice one call deeper) give (P, P') pairs; both are compiled by the real compiler; mirsym runs
Machine::new_resume(P -> P') from an arbitrary symbolic state of P and the solver decides, for every untouched voice, that
its state words arrive unchanged at their new address, that new voices start from zero and that the untouched channel's
next sample equals the uninterrupted run for all inputs.
"""
import os
import random
import sys
import time

sys.path.insert(0, os.path.dirname(os.path.dirname(os.path.abspath(__file__))))
from checks import common, progcheck, c06
from checks.report import Report
from checks.run_programs import run_jobs

PID = 'C07'

VOICES = {
    'osc': ('fn v_osc{k}(x:float){{\n  self + x * {c}\n}}\n', 'v_osc{k}(a)'),
    'lp': ('fn v_lp{k}(x:float){{\n  x * {c} + self * 0.5\n}}\n', 'v_lp{k}(a)'),
    'mem': ('fn v_mem{k}(x:float){{\n  mem(x) * {c}\n}}\n', 'v_mem{k}(a)'),
    'mem2': ('fn v_mm{k}(x:float){{\n  mem(mem(x)) + mem(x * {c})\n}}\n', 'v_mm{k}(a)'),
    'echo': ('fn v_echo{k}(x:float){{\n  delay(4.0, x * {c}, 2.0)\n}}\n', 'v_echo{k}(a)'),
    'echo3': ('fn v_ech{k}(x:float){{\n  delay(3.0, x, 1.0) * {c}\n}}\n', 'v_ech{k}(a)'),
    'dm': ('fn v_dm{k}(x:float){{\n  delay(3.0, mem(x), 1.0) + {c}\n}}\n', 'v_dm{k}(a)'),
    'nest': ('fn v_in{k}(x:float){{\n  self + x\n}}\nfn v_nest{k}(x:float){{\n  v_in{k}(x * {c}) + mem(x)\n}}\n', 'v_nest{k}(a)'),
}


# inner edits: the same voice with one stateful call site inserted (kind -> edited kind); all sites of a voice are distinguishable
VOICES['nestx'] = ('fn v_in{k}(x:float){{\n  self + x\n}}\nfn v_nest{k}(x:float){{\n  v_in{k}(x * {c}) + delay(5.0, x, 2.0) + mem(x)\n}}\n', 'v_nest{k}(a)')
VOICES['dmx'] = ('fn v_in{k}(x:float){{\n  self + x\n}}\nfn v_dm{k}(x:float){{\n  v_in{k}(x) + delay(3.0, mem(x), 1.0) + {c}\n}}\n', 'v_dm{k}(a)')
INNER = {'nest': 'nestx', 'nestx': 'nest', 'dm': 'dmx', 'dmx': 'dm'}


SIG = {'nestx': '(E)D5M', 'dmx': '(E)MD3', 'osc': 'E', 'lp': 'E', 'mem': 'M', 'mem2': 'MMM', 'echo': 'D4', 'echo3': 'D3', 'dm': 'MD3', 'nest': '(E)M'}


# a voice nested one call deeper ("nest a voice deeper"): same call sites, one FnCall level more
for _k in ('osc', 'lp', 'mem', 'mem2', 'echo', 'echo3', 'dm'):
    _d, _c = VOICES[_k]
    _fn = _c.split('{k}')[0]
    VOICES['w_' + _k] = (_d + 'fn w_%s{k}(x:float){{\n  %s{k}(x)\n}}\n' % (_fn[2:], _fn), 'w_%s{k}(a)' % _fn[2:])
    SIG['w_' + _k] = '(' + SIG[_k] + ')'


def unambiguous(vs, op, pos, arg):
    """the edit must not involve a voice whose state shape equals that of another voice of the program: identically shaped
    siblings may legitimately exchange their state (C08), which would make 'untouched' ambiguous"""
    sigs = [SIG[v[0]] for v in vs]
    if len(set(sigs)) != len(sigs):
        return False
    if op == 'replace':
        # a replacing voice that shares a call-site shape with the voice it replaces is indistinguishable from an inner edit of
        # that voice (the state tree has shapes, not names): its shared site may legitimately keep its state -> not scripted
        if set(leafsigs(SIG[arg[0]])) & set(leafsigs(SIG[vs[pos][0]])):
            return False
        return SIG[arg[0]] not in sigs
    if op == 'insert':
        return SIG[arg[0]] not in sigs
    if op == 'nest':
        return vs[pos][0] in ('osc', 'lp', 'mem', 'mem2', 'echo', 'echo3', 'dm') and ('(' + SIG[vs[pos][0]] + ')') not in sigs
    if op == 'multi':
        cur = list(vs)
        for (o, p_, a) in arg:
            if o == 'inner':
                # an edited voice must not share any call-site shape with another voice (its sites could be claimed by that voice)
                mine = set(leafsigs(SIG[cur[p_][0]])) | set(leafsigs(SIG[INNER[cur[p_][0]]]))
                others = set(x for j, v in enumerate(cur) if j != p_ for x in leafsigs(SIG[v[0]]))
                for (o2, _, a2) in arg:
                    if o2 in ('insert', 'replace'):
                        others |= set(leafsigs(SIG[a2[0]]))
                if mine & others:
                    return False
                cur[p_] = (INNER[cur[p_][0]],) + tuple(cur[p_][1:])
            else:
                if not unambiguous(cur, o, p_, a):
                    return False
                cur = apply_script(cur, o, p_, a)[0]
        return len(set(SIG[v[0]] for v in cur)) == len(cur)
    return True


def leafsigs(sig):
    """'(E)D5M' -> ['E', 'D5', 'M']"""
    import re
    return re.findall(r'D\d+|[EM]', sig)


def render(voices):
    """voices: list of (kind, id, const)"""
    src = ''
    calls = []
    seen = set()
    for kind, k, c in voices:
        d, call = VOICES[kind]
        key = (kind, k)
        if key not in seen:
            seen.add(key)
            src += d.format(k=k, c=c)
        calls.append(call.format(k=k))
    src += 'fn dsp(a:float){\n  (%s)\n}\n' % ', '.join(calls)
    return src


def scripts(rng, n):
    kinds = list(VOICES)
    out = []
    fixed = [
        ([('osc', 1, '0.5'), ('echo', 2, '1.0')], 'insert', 1, ('mem', 3, '2.0')),
        ([('osc', 1, '0.5'), ('echo', 2, '1.0')], 'insert', 0, ('mem2', 3, '0.25')),
        ([('osc', 1, '0.5'), ('echo', 2, '1.0')], 'insert', 2, ('nest', 3, '0.75')),      # near copy of osc (shares a Feed cell)
        ([('dm', 1, '0.5'), ('mem', 2, '1.0')], 'insert', 1, ('echo3', 3, '0.25')),       # near copy of dm (shares the delay line)
        ([('osc', 1, '0.5'), ('mem', 2, '1.0'), ('echo', 3, '1.0')], 'delete', 1, None),
        ([('mem2', 1, '0.5'), ('dm', 2, '0.25')], 'delete', 1, None),
        ([('osc', 1, '0.5'), ('echo', 2, '1.0')], 'replace', 0, ('mem2', 3, '1.0')),
        ([('osc', 1, '0.5'), ('echo', 2, '1.0')], 'const', 1, '3.0'),
        ([('nest', 1, '0.5'), ('echo3', 2, '1.0')], 'insert', 1, ('mem', 3, '1.0')),
        ([('mem', 1, '0.5'), ('mem2', 2, '1.0')], 'insert', 0, ('echo', 3, '1.0')),
    ]
    fixed += [
        # compound edits in ONE swap: a sibling inserted / deleted in front of an untouched voice AND a later voice edited inside
        ([('osc', 1, '0.5'), ('nest', 2, '1.0')], 'multi', 0, [('insert', 0, ('mem2', 3, '2.0')), ('inner', 2, None)]),
        ([('echo', 1, '0.5'), ('mem2', 2, '1.0'), ('dm', 3, '0.5')], 'multi', 0, [('delete', 0, None), ('inner', 1, None)]),
        ([('echo', 1, '0.5'), ('nestx', 2, '1.0')], 'multi', 0, [('insert', 0, ('mem2', 3, '2.0')), ('inner', 2, None)]),
        ([('mem2', 1, '0.5'), ('dm', 2, '1.0')], 'multi', 0, [('inner', 1, None)]),
    ]
    fixed += [
        # replacements at the LAST / a MIDDLE position by a differently shaped voice of equal, larger and smaller size (the new voice
        # must start from zero whatever stood at its address), deletions at both ends, an appended voice, voices nested one call deeper
        ([('echo3', 1, '0.5'), ('osc', 2, '1.0')], 'replace', 1, ('mem', 3, '2.0')),       # E -> M, same size
        ([('osc', 1, '0.5'), ('echo', 2, '1.0')], 'replace', 1, ('dm', 3, '0.5')),           # D4 -> M D3, same size (6 words)
        ([('osc', 1, '0.5'), ('echo', 2, '1.0'), ('mem2', 3, '1.0')], 'replace', 1, ('dm', 4, '0.5')),
        ([('osc', 1, '0.5'), ('echo3', 2, '1.0')], 'replace', 1, ('mem2', 3, '0.5')),        # smaller
        ([('osc', 1, '0.5'), ('mem', 2, '1.0')], 'replace', 1, ('echo', 3, '0.5')),          # larger
        ([('osc', 1, '0.5'), ('mem', 2, '1.0'), ('echo', 3, '1.0')], 'delete', 2, None),
        ([('osc', 1, '0.5'), ('mem', 2, '1.0'), ('echo', 3, '1.0')], 'delete', 0, None),
        ([('mem2', 1, '0.5'), ('echo', 2, '1.0')], 'nest', 1, None),
        ([('mem2', 1, '0.5'), ('echo', 2, '1.0')], 'nest', 0, None),
        ([('osc', 1, '0.5'), ('dm', 2, '1.0'), ('mem2', 3, '1.0')], 'nest', 1, None),
    ]
    for f in fixed:
        assert f[1] == 'multi' or f[3] is None or isinstance(f[3], str) or unambiguous(*f) or f in fixed[:10], f
        out.append(f)
    kinds = [k for k in kinds if k not in ('nestx', 'dmx') and not k.startswith('w_')]
    while len(out) < n:
        m = rng.randint(2, 3)
        vs = [(rng.choice(kinds), i + 1, rng.choice(['0.5', '0.25', '2.0'])) for i in range(m)]
        if rng.random() < 0.3:
            inn = [i for i, v in enumerate(vs) if v[0] in INNER]
            if inn:
                i = rng.choice(inn)
                edits = []
                if rng.random() < 0.5:
                    p_ = rng.randint(0, i)
                    edits.append(('insert', p_, (rng.choice(kinds), m + 1, '1.5')))
                    edits.append(('inner', i + 1, None))
                elif i > 0:
                    p_ = rng.randint(0, i - 1)
                    edits.append(('delete', p_, None))
                    edits.append(('inner', i - 1, None))
                else:
                    edits.append(('inner', i, None))
                if unambiguous(vs, 'multi', 0, edits):
                    out.append((vs, 'multi', 0, edits))
                continue
        op = rng.choice(['insert', 'insert', 'delete', 'replace', 'replace', 'const', 'nest'])
        pos = rng.randint(0, m if op == 'insert' else m - 1)
        arg = None
        if op in ('insert', 'replace'):
            arg = (rng.choice(kinds), m + 1, rng.choice(['0.5', '1.5']))
        elif op == 'const':
            arg = rng.choice(['3.0', '0.125'])
        if unambiguous(vs, op, pos, arg):
            out.append((vs, op, pos, arg))
    return out[:n]


def apply_multi(vs, edits):
    """-> (new voices, kept, new, inner [(oi, ni)])"""
    cur = [(v, i, False) for i, v in enumerate(vs)]          # (voice, old index or None, edited inside)
    for (o, p_, a) in edits:
        if o == 'insert':
            cur.insert(p_, (a, None, False))
        elif o == 'delete':
            del cur[p_]
        elif o == 'replace':
            cur[p_] = (a, None, False)
        elif o == 'inner':
            v, oi, _ = cur[p_]
            cur[p_] = ((INNER[v[0]],) + tuple(v[1:]), oi, True)
        else:
            raise ValueError(o)
    nv = [c[0] for c in cur]
    kept = [(oi, ni) for ni, (_, oi, ed) in enumerate(cur) if oi is not None and not ed]
    new = [ni for ni, (_, oi, _) in enumerate(cur) if oi is None]
    inner = [(oi, ni) for ni, (_, oi, ed) in enumerate(cur) if oi is not None and ed]
    return nv, kept, new, inner


def apply_script(vs, op, pos, arg):
    """-> (new voices, kept [(oi,ni)], new [ni])"""
    if op == 'multi':
        return apply_multi(vs, arg)[:3]
    if op == 'insert':
        nv = vs[:pos] + [arg] + vs[pos:]
        kept = [(i, i if i < pos else i + 1) for i in range(len(vs))]
        return nv, kept, [pos]
    if op == 'delete':
        nv = vs[:pos] + vs[pos + 1:]
        kept = [(i, i if i < pos else i - 1) for i in range(len(vs)) if i != pos]
        return nv, kept, []
    if op == 'replace':
        nv = vs[:pos] + [arg] + vs[pos + 1:]
        kept = [(i, i) for i in range(len(vs)) if i != pos]
        return nv, kept, [pos]
    if op == 'nest':
        k, i, c = vs[pos]
        nv = vs[:pos] + [('w_' + k, i, c)] + vs[pos + 1:]
        # the nested voice itself is not judged (its path changed); its siblings are untouched
        return nv, [(i_, i_) for i_ in range(len(vs)) if i_ != pos], []
    if op == 'const':
        k, i, c = vs[pos]
        nv = vs[:pos] + [(k, i, arg)] + vs[pos + 1:]
        # a changed constant leaves the state shape untouched: every voice keeps its state (its output may change)
        kept = [(i_, i_) for i_ in range(len(vs)) if i_ != pos]
        return nv, kept + [], []
    raise ValueError(op)


def run(tier, seed):
    quick = tier == 'quick'
    rep = Report(PID, tier, seed, 'model_checking')
    common.build_mmdump()
    mirs = common.prog_mirs(('mimium_cli',))
    rng = random.Random(seed)
    scr = scripts(rng, 36 if quick else 140)
    gdir = os.path.join(common.CACHE, 'c07')
    os.makedirs(gdir, exist_ok=True)
    jobs, meta = [], []
    budget = 90 if quick else 400
    qto = 5000 if quick else 30000
    for n, (vs, op, pos, arg) in enumerate(scr):
        nv, kept, newv = apply_script(vs, op, pos, arg)
        inner = apply_multi(vs, arg)[3] if op == 'multi' else []
        po = os.path.join(gdir, 'p%03d_old.mmm' % n)
        pn = os.path.join(gdir, 'p%03d_new.mmm' % n)
        open(po, 'w').write(render(vs))
        open(pn, 'w').write(render(nv))
        # state-only check for the voice whose constant changed (its output legitimately changes)
        for (be, var) in c06.BACKENDS:
            jobs.append(('analysis', dict(cls=('checks.c06', 'SwapAnalysis'), path=po, new_path=pn, voices_kept=kept, voices_new=newv, voices_inner=inner, mir_paths=mirs,
                                          backend=be, variant=var, steps=1, mode='inductive', query_timeout_ms=qto, time_budget_s=budget, seed=seed)))
            meta.append(dict(old=[v[0] for v in vs], edit=op, pos=pos, arg=(arg[0] if isinstance(arg, tuple) else ('+'.join('%s@%d' % (e[0], e[1]) for e in arg) if isinstance(arg, list) else arg)), kept=kept, inner=inner, new=newv, old_path=po, new_path=pn,
                             backend=be, variant=var))
    res = run_jobs(jobs)
    npaths = nchecks = 0
    for r, m in zip(res, meta):
        tagname = '%s %s@%d %s%s' % ('+'.join(m['old']), m['edit'], m['pos'], m['arg'] or '', '' if m['backend'] == 'vm' else ' [wasm/%s]' % m['variant'])
        r['program'] = tagname
        if not rep.absorb(r):
            if r.get('status') in ('rejected', 'no_dsp_io'):
                rep.inconclusive.append('%s: generated program not accepted by the compiler (%s)' % (tagname, r.get('status')))
            continue
        npaths += r.get('paths', 0)
        nchecks += r.get('checks', 0)
        done = False
        for d in r.get('panics', []):
            if done:
                break
            if d['kind'] != 'swap':
                rep.inconclusive.append('%s: path ended by a crash obligation (%s)' % (tagname, d['msg'][:70]))
                continue
            rep.replays += 1
            ok, detail = c06.confirm_swap(m['old_path'], m['new_path'], d, m['kept'], m['new'], None, backend=m['backend'], variant=m['variant'])
            if not ok and 'lost state word' in d['msg'] or 'does not start from zero' in d['msg']:
                # state-level witness: compare the real VM's state right after the swap
                ok2, det2 = confirm_state(m, d)
                ok = ok or ok2
                detail['state_check'] = det2
            rec = dict(program=tagname, msg=d['msg'], edit=m, sources=dict(old=open(m['old_path']).read(), new=open(m['new_path']).read()),
                       model=dict(inputs=d.get('inputs'), init_state=d.get('init_state'), now0=d.get('now0')), replay=detail)
            if ok:
                done = True
                rep.finding(classify(m, d), rec)
            else:
                rep.inconclusive.append('%s: "%s" has a model that the real VM does not exhibit' % (tagname, d['msg'][:80]))
        if len(rep.samples) < 8:
            rep.samples.append(dict(edit=tagname, kept=m['kept'], new=m['new'], feasible_paths=r['paths'], equalities_checked=r.get('checks')))
    try:
        fs, fstats = fault_scenarios(mirs, os.path.join(common.VERIF, 'corpus', 'st_delay.mmm'))
    except Exception as e:
        import traceback
        fs, fstats = [dict(scenario='*', status='error', msg='%r %s' % (e, traceback.format_exc()[-600:]))], {}
    for k, v in fstats.items():
        rep.stats[k] = rep.stats.get(k, 0) + v
    for f in fs:
        if f['status'] == 'violation':
            rep.finding('fault:' + f['scenario'], dict(program='fault scenario: ' + f['scenario'], msg=f['msg'], detail=f))
        elif f['status'] != 'ok':
            rep.inconclusive.append('fault scenario %s: unsupported: %s' % (f['scenario'], f.get('msg', '')[:200]))
    rep.extra['fault_scenarios'] = fs
    cov = dict(states=max(1, npaths), transitions=max(1, rep.stats['queries']), traces_validated_against_impl=rep.replays, edit_pairs=len(scr),
               equalities_checked=nchecks, voice_kinds=sorted(VOICES),
               routes=[list(b) for b in c06.BACKENDS],
               bounds='%d scripted edits (insert / delete / replace a voice at any position, change a constant, near-copy insertions, and compound edits: a sibling inserted / deleted in front of an untouched voice plus a later voice edited inside) over programs of 2-3 voices drawn from %d voice kinds; '
                      'pre-swap state fully symbolic; one post-swap sample with symbolic input; every edit through three routes: VmDspRuntime::try_hot_swap, and WasmDspRuntime::try_hot_swap with the payload of '
                      'FileRunner::prepare_hot_swap_wasm_payload as the native CLI calls it (bytes only) and as recompile_file_inprocess calls it (with skeleton)' % (len(scr), len(VOICES)))
    assumptions = ['"an edit that fails to compile leaves the running program unchanged": decided on the CLI recompile paths (recompile_file_inprocess closure, recompile_file) executed from MIR with every outcome of the compile step stubbed in turn (file read, subprocess, compiler answer, prewarm); the audio-thread side (the driver polling the channel) and real threads are not encoded',
                   'Machine::link_functions stubbed; WASM: WasmEngine::new / load_module and the WasmModule surface are served by wasmsym (see C06); replay of WASM witnesses uses a replica of prepare_hot_swap_wasm_payload in mmdump with the real try_hot_swap',
                   'edit scripts define which voices count as untouched']
    return rep.finish(cov, assumptions)


# ---------------------------------------------------------------------------------------------------------------------------
# "An edit that fails to compile leaves the running program and its state unchanged": the only way a new program reaches the audio
# thread is a ProgramPayload sent through FileRunner.tx_prog.  The MIR of the CLI's recompile paths is executed with every outcome of
# the compile step (the compile itself, the subprocess and the file read are the stubs -- they are the fault sources) and the channel
# is inspected: a failed step sends nothing and does not touch the remembered old program; a successful one sends exactly one payload.
# ---------------------------------------------------------------------------------------------------------------------------
def fault_scenarios(mirs, sample_prog):
    from mirsym.values import Sc, Ref, Agg, VecV, StrV, Opaque, UNIT, Slice
    from mirsym.models import some, none, ok, err
    from mirsym.interp import Explorer
    from mirsym.vmdriver import build_program, skel_value
    from wasmsym.driver import _struct, ModuleV, FuncV, load_module, install_module_models
    from wasmsym.exec import Instance
    from wasmsym.hostwasm import Host
    an = progcheck.ProgramAnalysis(sample_prog, mirs, steps=1)
    if not an.compile():
        return [dict(scenario='*', status='error', msg='sample program rejected')], {}
    cj = an.cj
    out = []
    stats = {}

    def run(name, body):
        smt, it = an.new_interp()
        ex = Explorer(smt, 8)
        box = {}

        def path(it):
            install_module_models(it)
            it.models.extra['report'] = lambda it_, a, fr, c: UNIT
            it.models.extra['mimium_lang::utils::error::report'] = lambda it_, a, fr, c: UNIT
            ch = it.call('std::sync::mpsc::channel', [], None)
            tx, rx = ch.fields
            sk = cj['wasm'].get('dsp_state_skeleton')
            oldprog = _struct(it, 'OldWasmProgram', dsp_state_skeleton=some(skel_value(it, sk)) if sk is not None else none(), ext_fns=VecV([]), plugin_fns=none())
            mtx = it.call('std::sync::Mutex::new', [some(oldprog)], None)
            box['runner'] = lambda use_wasm: _struct(it, 'FileRunner', tx_compiler=Opaque('Sender<CompileRequest>'), rx_compiler=Opaque('Receiver<Response>'), tx_prog=some(tx),
                                                     fullpath=Opaque('PathBuf'), use_wasm=Sc('bool', int(use_wasm)), old_program=mtx, retired_engine_receiver=none())
            box['oldprog'] = oldprog
            box['mtx'] = mtx
            exp = body(it, box)
            q = rx.fields[0].queue
            got = []
            e = it.layouts.find_enum('ProgramPayload')
            for pl in q:
                d = it.concretize(it.discriminant(pl), 'payload variant')
                vd = e.variants[d]
                got.append(vd[0] if isinstance(vd, (tuple, list)) else str(d))
            box['got'] = got
            box['exp'] = exp
            box['queue'] = list(q)
            return None
        res = ex.explore(it, path)
        st = res[0][0] if res else 'none'
        rec = dict(scenario=name, status=st)
        for k in ('queries', 'sat', 'unsat', 'unknown', 'solver_s', 'paths', 'mir_statements'):
            stats[k] = stats.get(k, 0) + smt.stats.as_dict().get(k, 0)
        if st != 'ok':
            rec['msg'] = str(res[0][1])[:300] if res else ''
            if ex.findings:
                rec['msg'] = ex.findings[0].msg[:300]
        else:
            rec.update(payloads_sent=box['got'], expected=box['exp'])
            chk = box.get('check')
            if len(box['got']) != len(box['exp']) or any(str(a) != str(b) for a, b in zip(box['got'], box['exp'])):
                rec['status'] = 'violation'
                rec['msg'] = 'payloads sent to the audio thread: %r, expected %r' % (box['got'], box['exp'])
            elif chk is not None:
                m = chk(box)
                if m:
                    rec['status'] = 'violation'
                    rec['msg'] = m
        rec['functions'] = len(it.functions_used)
        out.append(rec)

    def closure_env(it, runner):
        span = [k for k in it.crate.closure_by_span if 'mimium-cli/src/lib.rs' in k and 'recompile' not in k and _is_recompile_closure(it, k)]
        return Agg('closure:' + span[0], None, [Ref([runner], 0), Ref([StrV('fn dsp(){ 0.0 }')], 0)])

    def _is_recompile_closure(it, span):
        mir, name = it.crate.closure_by_span[span]
        return 'recompile_file_inprocess::{closure#0}' in name

    # 1. in-process route, the compiler answers with errors
    def s_err(it, box):
        it.call_value(closure_env(it, box['runner'](False)), [err(VecV([Opaque('RichError'), Opaque('RichError')]))], None)
        return []
    run('inprocess: compile error', s_err)

    # 2. in-process route, unexpected answers (AST / MIR)
    def s_ast(it, box):
        e = it.layouts.find_enum('Response')
        it.call_value(closure_env(it, box['runner'](False)), [ok(Agg(it.enum_tag(e), e.variant_index('Ast'), [Opaque('ExprNodeId')]))], None)
        return []
    run('inprocess: unexpected AST answer', s_ast)

    # 3. in-process route, bytecode: exactly one VmProgram payload carrying that very program
    def s_bc(it, box):
        e = it.layouts.find_enum('Response')
        prog = build_program(it, cj['bytecode']['program'])
        box['prog'] = prog
        it.call_value(closure_env(it, box['runner'](False)), [ok(Agg(it.enum_tag(e), e.variant_index('ByteCode'), [prog]))], None)
        box['check'] = lambda b: None if (b['queue'] and b['queue'][0].fields[0] is b['prog']) else 'the payload does not carry the compiled program'
        return ['VmProgram']
    run('inprocess: bytecode compiled', s_bc)

    def wasm_stubs(it, fail_load=False):
        def eng_new(it_, args, fr, callee):
            return ok(_struct(it, 'WasmEngine', runtime=Opaque('WasmRuntime'), current_module=none(), dsp_func=none()))

        def load_mod(it_, args, fr, callee):
            if fail_load:
                return err(StrV('Failed to load WASM module'))
            e = args[0]
            while type(e) is Ref:
                e = e.cont[e.key]
            m = load_module(cj['wasm']['wat'])
            h = Host(it, 48000.0)
            mv = ModuleV(Instance(m, it, h), h, m)
            fs = it.layouts.find_struct('WasmEngine').fields
            e.fields[fs.index('current_module')] = some(mv)
            e.fields[fs.index('dsp_func')] = some(FuncV('dsp'))
            return ok(UNIT)
        it.models.extra['WasmEngine::new'] = eng_new
        it.models.extra['WasmEngine::load_module'] = load_mod

    def recompile(it, box, load_ok, sub_ok, fail_load=False):
        wasm_stubs(it, fail_load)
        it.models.extra['load'] = it.models.extra['fileloader::load'] = it.models.extra['mimium_lang::utils::fileloader::load'] = \
            (lambda it_, a, fr, c: ok(StrV('fn dsp(){ 0.0 }'))) if load_ok else (lambda it_, a, fr, c: err(Opaque('fileloader::Error')))
        it.models.extra['FileRunner::try_compile_wasm_in_subprocess'] = \
            (lambda it_, a, fr, c: ok(VecV([Sc('u8', 0)]))) if sub_ok else (lambda it_, a, fr, c: err(StrV('subprocess compile failed (status: Some(1))')))
        it.models.extra['std::path::Path::to_string_lossy'] = it.models.extra['Path::to_string_lossy'] = lambda it_, a, fr, c: StrV('/x.mmm')
        it.models.extra['std::path::Path::display'] = it.models.extra['Path::display'] = lambda it_, a, fr, c: StrV('/x.mmm')
        runner = box['runner'](True)
        before = box['mtx']
        it.call('FileRunner::recompile_file', [Ref([runner], 0)], None)

    def old_unchanged(b):
        m = b['mtx']
        while type(m) is Ref:
            m = m.cont[m.key]
        cur = m
        # Mutex model: identity wrapper around the Option<OldWasmProgram>
        from mirsym.models import RefCellV
        inner = cur.cell[0] if hasattr(cur, 'cell') else (cur.v if hasattr(cur, 'v') else cur)
        if hasattr(inner, 'fields') and inner.variant == 1 and inner.fields[0] is b['oldprog']:
            return None
        return 'the remembered old program was replaced although nothing was swapped'

    def s_sub_err(it, box):
        recompile(it, box, True, False)
        box['check'] = old_unchanged
        return []
    run('subprocess: compile error', s_sub_err)

    def s_load_err(it, box):
        recompile(it, box, False, True)
        box['check'] = old_unchanged
        return []
    run('subprocess: source file unreadable', s_load_err)

    def s_prewarm_err(it, box):
        recompile(it, box, True, True, fail_load=True)
        box['check'] = old_unchanged
        return []
    run('subprocess: module compiles but does not load (prewarm fails)', s_prewarm_err)

    def s_sub_ok(it, box):
        recompile(it, box, True, True)
        # vacuity witness of the `old_unchanged` detector: a successful preparation DOES replace the remembered program
        box['check'] = lambda b: None if old_unchanged(b) else 'update_old_program did not run after a successful preparation (or the detector is blind)'
        return ['WasmModule']
    run('subprocess: module compiled', s_sub_ok)
    return out, stats


def classify(m, d):
    if m.get('backend') == 'wasm' and m.get('variant') == 'subprocess' and d.get('swap_verbatim'):
        # one cause, many edits: the native CLI compiles the WASM backend in a subprocess that returns bytes only, so no state skeleton
        # reaches prepare_hot_swap_wasm_payload / try_hot_swap and the old state vector is copied verbatim whatever the edit was
        return 'wasm-subprocess:no-skeleton-verbatim-copy'
    if m.get('backend') == 'wasm' and 'differs from the uninterrupted run' in d['msg'] and d.get('n_out') and d['n_out'][0] != d['n_out'][1]:
        # the state hand-over was right (those obligations come first on the path); the runtime still reads outputs with the OLD channel count
        return 'wasm:stale-io-channels-after-swap'
    if m.get('backend') == 'wasm':
        return 'wasm-%s:%s:%s@%d' % (m.get('variant'), d['msg'][:40], m['edit'], m['pos'])
    if 'lost state word' in d['msg'] or 'differs from the uninterrupted run' in d['msg']:
        if m['edit'] in ('insert', 'delete', 'replace') and not m.get('inner'):
            return 'untouched-voice-lost:patch-count-score-prefers-partial-match'
    return '%s:%s@%d' % (d['msg'][:40], m['edit'], m['pos'])


def site_list(sk, base=0, depth=0, out=None):
    from mirsym.vmdriver import skel_total
    if out is None:
        out = []
    if sk.get('children') is not None and sk.get('k', 'FnCall') == 'FnCall':
        off = base
        for c in sk['children']:
            site_list(c, off, depth + 1, out)
            off += skel_total(c)
    else:
        out.append((base, skel_total(sk), (sk.get('k'), skel_total(sk), depth)))
    return out


def confirm_state(m, d):
    """real VM (mmdump replay): start from the witness state, hot-swap before step 0 and read the state storage right after
    VmDspRuntime::try_hot_swap: untouched voices / untouched call sites inside edited voices must hold their pre-swap words at
    their new address, inserted voices must be zero."""
    init = d.get('init_state')
    row = (d.get('inputs') or [[]])[0]
    be = m.get('backend', 'vm')
    base = dict(src_path=m['old_path'], backend=be, steps=1, inputs=[row], init_state=init, now_start=d.get('now0', 0), timeout_s=20)
    try:
        swapped = common.replay(dict(base, swaps=[dict(at_step=0, src_path=m['new_path'], variant=m.get('variant') or 'inprocess')]))[be]
        co = common.compile_program(m['old_path'])['bytecode']['program']
        cn = common.compile_program(m['new_path'])['bytecode']['program']
    except Exception as e:
        return False, dict(error=repr(e))
    from mirsym.vmdriver import skel_total
    sko, skn = co['fns'][co['dsp_index']]['state_skeleton'], cn['fns'][cn['dsp_index']]['state_skeleton']

    def ranges(sk):
        out, off = [], 0
        for c in sk['children']:
            n = skel_total(c)
            out.append((off, n))
            off += n
        return out
    ro, rn = ranges(sko), ranges(skn)
    sw = (swapped.get('swaps') or [{}])[0]
    ss = sw.get('state_after_swap')
    if ss is None or init is None:
        return False, dict(swap=sw, note='no post-swap state available')
    ss = ss + [0] * max(0, skel_total(skn) - len(ss))       # the WASM state vector grows lazily from zero
    for (oi, ni) in m['kept']:
        (ao, so), (an_, sn) = ro[oi], rn[ni]
        if init[ao:ao + so] != ss[an_:an_ + sn]:
            return True, dict(voice=(oi, ni), before=init[ao:ao + so], after_swap=ss[an_:an_ + sn])
    for (oi, ni) in m.get('inner') or []:
        so_, sn_ = site_list(sko['children'][oi]), site_list(skn['children'][ni])
        for (ra, words, sig) in so_:
            mo = [x for x in so_ if x[2] == sig]
            mn = [x for x in sn_ if x[2] == sig]
            if len(mo) == 1 and len(mn) == 1:
                b = init[ro[oi][0] + ra: ro[oi][0] + ra + words]
                a_ = ss[rn[ni][0] + mn[0][0]: rn[ni][0] + mn[0][0] + words]
                if a_ != b:
                    return True, dict(edited_voice=(oi, ni), site=list(sig), before=b, after_swap=a_)
    for ni in m.get('new') or []:
        an_, sn = rn[ni]
        if any(w != 0 for w in ss[an_:an_ + sn]):
            return True, dict(new_voice=ni, after_swap=ss[an_:an_ + sn])
    return False, dict(before=init, after_swap=ss)
