"""Value model of the MIR symbolic executor.

Control and heap *shape* are concrete Python objects; scalars are Python ints
(concrete, two's-complement, kept in [0,2^w)) or z3 terms (symbolic).
f64 scalars carry either the 64-bit pattern as int (concrete) or a z3 FP term.
"""


class Sc(object):
    __slots__ = ('t', 'v')

    def __init__(self, t, v):
        self.t = t
        self.v = v

    def __repr__(self):
        return 'Sc(%s,%s)' % (self.t, self.v if isinstance(self.v, int) else '<sym>')


class Agg(object):
    """struct / tuple / enum variant / array / closure environment"""
    __slots__ = ('ty', 'variant', 'fields')

    def __init__(self, ty, variant, fields):
        self.ty = ty
        self.variant = variant
        self.fields = fields

    def __repr__(self):
        return 'Agg(%s%s,%r)' % (self.ty, '' if self.variant is None else '#%s' % self.variant, self.fields)


class Ref(object):
    """thin pointer to one slot: cont[key]; key may be a z3 BV64 for element pointers into word buffers"""
    __slots__ = ('cont', 'key', 'mut')

    def __init__(self, cont, key, mut=True):
        self.cont = cont
        self.key = key
        self.mut = mut

    def __repr__(self):
        return 'Ref(@%x,%s)' % (id(self.cont) & 0xffff, self.key if isinstance(self.key, int) else '<sym>')


class Slice(object):
    """fat pointer to [T]: elements buf[start .. start+len]"""
    __slots__ = ('buf', 'start', 'len')

    def __init__(self, buf, start, ln):
        self.buf = buf
        self.start = start
        self.len = ln

    def __repr__(self):
        return 'Slice(@%x,%s,%s)' % (id(self.buf) & 0xffff, self.start, self.len)


class BytePtr(object):
    """*mut u8 obtained by casting a pointer into a buffer of 64-bit words"""
    __slots__ = ('buf', 'start')

    def __init__(self, buf, start):
        self.buf, self.start = buf, start


class ByteSlice(object):
    """&[u8] view over a word buffer (slice::from_raw_parts(words.as_ptr() as *const u8, n*8))"""
    __slots__ = ('buf', 'start', 'nbytes')

    def __init__(self, buf, start, nbytes):
        self.buf, self.start, self.nbytes = buf, start, nbytes


class StrV(object):
    __slots__ = ('s',)

    def __init__(self, s):
        self.s = s

    def __repr__(self):
        return 'Str(%r)' % self.s


class FnV(object):
    """function item or function pointer"""
    __slots__ = ('path', 'bound')

    def __init__(self, path, bound=None):
        self.path = path
        self.bound = bound

    def __repr__(self):
        return 'Fn(%s)' % self.path


class VecV(object):
    """Vec<T> (also String as Vec<u8> is not modelled).  Identity = the Python object; buf is the element list."""
    __slots__ = ('buf',)

    def __init__(self, buf=None):
        self.buf = buf if buf is not None else []

    def __repr__(self):
        return 'Vec(%r)' % (self.buf if len(self.buf) < 12 else '[..%d]' % len(self.buf))


class BoxV(object):
    __slots__ = ('cell',)

    def __init__(self, v):
        self.cell = [v]

    def field_place(self, i):
        # Box<T>.0 : Unique<T> { pointer: NonNull<T> { pointer: *const T } } -- exposed by rustc's inserted pointer checks
        return ([Agg('Unique', None, [Agg('NonNull', None, [Ref(self.cell, 0)])])], 0)

    def __repr__(self):
        return 'Box(%r)' % (self.cell[0],)


class MapV(object):
    """HashMap / HashSet as insertion-ordered association list of (key, value)"""
    __slots__ = ('items', 'kind')

    def __init__(self, kind='map'):
        self.items = []
        self.kind = kind


class SlotMapV(object):
    """slotmap::SlotMap<DefaultKey, V>: slots list of [version:int, value or None]; free list like the real crate."""
    __slots__ = ('slots', 'free_head', 'num_elems')

    def __init__(self):
        # slot 0 is the sentinel like slotmap's implementation
        self.slots = [[0, None, 0]]   # [version, value, next_free]
        self.free_head = 1
        self.num_elems = 0


class TyEnvTag(object):
    """hidden last field of a closure environment: the generic-parameter bindings of the frame that CREATED the closure (a closure
    body names the generics of its defining function, whoever calls it)"""
    __slots__ = ('env',)

    def __init__(self, env):
        self.env = env

    def __repr__(self):
        return '<tyenv>'


class Opaque(object):
    __slots__ = ('what',)

    def __init__(self, what):
        self.what = what

    def __repr__(self):
        return 'Opaque(%s)' % self.what


class _Sentinel(object):
    def __init__(self, n):
        self.n = n

    def __repr__(self):
        return self.n


UNINIT = _Sentinel('UNINIT')
MOVED = _Sentinel('MOVED')
UNIT = Agg('tuple', None, [])


def copy_val(v):
    """value copy (Rust `copy`/by-value semantics): aggregates are duplicated, pointers are shared."""
    if type(v) is Agg:
        return Agg(v.ty, v.variant, [copy_val(f) for f in v.fields])
    return v


def clone_val(v):
    """deep clone (Rust Clone for the data types we model)"""
    t = type(v)
    if t is Agg:
        return Agg(v.ty, v.variant, [clone_val(f) for f in v.fields])
    if t is VecV:
        return VecV([clone_val(x) for x in v.buf])
    if t is BoxV:
        return BoxV(clone_val(v.cell[0]))
    if t is MapV:
        m = MapV(v.kind)
        m.items = [(clone_val(k), clone_val(x)) for k, x in v.items]
        return m
    if t is SlotMapV:
        m = SlotMapV()
        m.slots = [[s[0], clone_val(s[1]), s[2]] for s in v.slots]
        m.free_head = v.free_head
        m.num_elems = v.num_elems
        return m
    return v
