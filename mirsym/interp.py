"""Symbolic executor for rustc MIR (text dumps).  See DESIGN.md §2.1.

Concrete control and heap shape, symbolic scalars.  Path exploration is by
re-execution with decision prefixes (Explorer).
"""
import os
import re
import sys
import time
import z3
from .mirparse import MirFile, split_top, match_close, ParseError
from .values import *
from . import smt as S
from .smt import INT_W, SIGNED, is_sym, mask, to_signed

sys.setrecursionlimit(20000)


class Unsupported(Exception):
    """the path ran into something the executor does not model: inconclusive, never pass/violation"""


class PanicReached(Exception):
    def __init__(self, msg, kind='panic'):
        Exception.__init__(self, msg)
        self.msg = msg
        self.kind = kind


class PathInfeasible(Exception):
    pass


class PathEnd(Exception):
    """driver-requested end of path"""


# ------------------------------------------------------------------------------------------------
# type-string helpers
# ------------------------------------------------------------------------------------------------
def strip_generics(path):
    """remove ::<...> and <...> generic argument lists from a path (not leading <T as Trait>)"""
    out = []
    i, n = 0, len(path)
    while i < n:
        c = path[i]
        if c == '<' and i > 0:
            j = match_close(path, i)
            i = j + 1
            if out and out[-1] == '::':
                out.pop()
            continue
        if path.startswith('::', i):
            out.append('::')
            i += 2
            continue
        out.append(c)
        i += 1
    s = ''.join(out)
    while s.endswith('::'):
        s = s[:-2]
    return s


def split_path(path):
    """split a path at top-level '::'"""
    segs, depth, cur = [], 0, []
    i, n = 0, len(path)
    while i < n:
        c = path[i]
        if c in '<([{':
            depth += 1
        elif c in ')]}':
            depth -= 1
        elif c == '>' and not (i > 0 and path[i - 1] == '-'):
            depth -= 1
        if depth == 0 and path.startswith('::', i):
            segs.append(''.join(cur))
            cur = []
            i += 2
            continue
        cur.append(c)
        i += 1
    segs.append(''.join(cur))
    return segs


def last_generics(seg):
    """generic args text list of a path segment 'name<..>' or '<..>' -> list of strings"""
    k = seg.find('<')
    if k < 0:
        return []
    end = match_close(seg, k)
    return [a.strip() for a in split_top(seg[k + 1:end])]


def type_head(t):
    """last path segment name without generics, e.g. 'std::vec::Vec<u64>' -> 'Vec'"""
    t = t.strip()
    segs = split_path(t)
    s = segs[-1]
    k = s.find('<')
    return s[:k] if k >= 0 else s


def strip_ref(t):
    t = t.strip()
    while True:
        if t.startswith('&'):
            t = t[1:].lstrip()
            if t.startswith("'"):
                t = t.split(' ', 1)[1] if ' ' in t else ''
            if t.startswith('mut '):
                t = t[4:]
        elif t.startswith('*const '):
            t = t[7:]
        elif t.startswith('*mut '):
            t = t[5:]
        else:
            return t.strip()


# ------------------------------------------------------------------------------------------------
# crate index: resolves callee paths to MIR bodies
# ------------------------------------------------------------------------------------------------
class ImplInfo:
    __slots__ = ('selfty', 'trait', 'generics', 'selfargs')


class Crate:
    def __init__(self, mirfiles, layouts, repo_root='/repo'):
        self.mirs = mirfiles if isinstance(mirfiles, list) else [mirfiles]
        self.layouts = layouts
        self.repo_root = repo_root
        self._src = {}
        self._impl = {}
        self.by_last = {}       # last segment -> [(mir, name, normsegs, implinfo)]
        self.closure_by_span = {}
        self.fn_generics = {}
        self._index()

    def src_lines(self, file):
        if file not in self._src:
            p = file if file.startswith('/') else self.repo_root + '/' + file
            try:
                with open(p, encoding='utf-8', errors='replace') as f:
                    self._src[file] = f.read().split('\n')
            except OSError:
                self._src[file] = []
        return self._src[file]

    _impl_re = re.compile(r'<impl at (.*?):(\d+):(\d+): (\d+):(\d+)>')

    def impl_info(self, file, line, col):
        key = (file, line, col)
        if key in self._impl:
            return self._impl[key]
        lines = self.src_lines(file)
        text = ' '.join(lines[line - 1: line + 6])[col - 1:] if lines else ''
        info = ImplInfo()
        info.selfty, info.trait, info.generics, info.selfargs = None, None, [], []
        if text.startswith('#[derive') or text.startswith('derive') or not text.startswith('impl'):
            # derive(...) attribute: span points at the derive trait name, e.g. `Debug`; self type = next struct/enum
            m = re.match(r'([A-Za-z_][A-Za-z0-9_:]*)', text)
            info.trait = m.group(1).split('::')[-1] if m else None
            for l in lines[line - 1: line + 30]:
                m2 = re.search(r'\b(?:struct|enum|union)\s+([A-Za-z_][A-Za-z0-9_]*)\s*(<[^{(;]*>)?', l)
                if m2:
                    info.selfty = m2.group(1)
                    break
        else:
            t = text[4:].lstrip()
            if t.startswith('<'):
                end = match_close(t, 0)
                for g in split_top(t[1:end]):
                    g = g.strip()
                    if g and not g.startswith("'"):
                        g = g.split(':')[0].strip()
                        info.generics.append(g[6:].strip() if g.startswith('const ') else g)
                t = t[end + 1:].lstrip()
            # up to '{' or 'where'
            hdr = re.split(r'\bwhere\b|\{', t, 1)[0].strip()
            m = re.match(r'^(.*?)\s+for\s+(.*)$', hdr)
            if m and not _inside_angle(hdr, hdr.find(' for ')):
                info.trait = type_head(m.group(1))
                selft = m.group(2).strip()
            else:
                selft = hdr
            selft = strip_ref(selft)
            info.selfty = type_head(selft) if not selft.startswith('[') else '[]'
            info.selfargs = last_generics(split_path(selft)[-1]) if not selft.startswith('[') else []
        self._impl[key] = info
        return info

    def _norm(self, name):
        """-> (normalized segment list, implinfo or None)"""
        segs = split_path(name)
        out = []
        info = None
        for sg in segs:
            m = self._impl_re.fullmatch(sg)
            if m:
                info = self.impl_info(m.group(1), int(m.group(2)), int(m.group(3)))
                out.append(info.selfty or '?')
            else:
                k = sg.find('<')
                out.append(sg[:k] if k >= 0 else sg)
        return [o for o in out if o], info

    def _index(self):
        for mir in self.mirs:
            for name in mir.names():
                try:
                    segs, info = self._norm(name)
                except Exception:
                    continue
                self.by_last.setdefault(segs[-1], []).append((mir, name, segs, info))
                if segs[-1].startswith('{closure#'):
                    kind, a, b = mir.items[name]
                    hdr = mir.lines[a]
                    m = re.search(r'\(_1: (?:&mut |&)?(\{closure@[^}]*\})', hdr)
                    if m:
                        self.closure_by_span[m.group(1)] = (mir, name)

    def resolve(self, segs, trait=None, selfty=None):
        """segs: normalized reference path segments (generics stripped). returns (mir, name, info) or None"""
        cands = self.by_last.get(segs[-1], [])
        best = None
        for mir, name, isegs, info in cands:
            if trait is not None:
                if info is None or info.trait != trait:
                    continue
                if selfty is not None and info.selfty != selfty:
                    continue
                if len(isegs) >= 1 and isegs[-1] == segs[-1]:
                    # trait impls nested inside fn bodies etc: accept
                    return (mir, name, info)
                continue
            if info is not None and info.trait is not None and len(segs) >= 2 and info.selfty == segs[-2]:
                # inherent-style reference to a trait-impl method (e.g. `Task::cmp`): allow as fallback
                if best is None:
                    best = (mir, name, info)
                continue
            # suffix compatibility
            n = min(len(segs), len(isegs))
            if n >= 2 and segs[-n:] == isegs[-n:]:
                if info is None or info.trait is None:
                    return (mir, name, info)
                best = best or (mir, name, info)
            elif n == 1 and len(segs) == 1 and len(isegs) == 1:
                return (mir, name, info)
            elif (info is not None and info.trait is None and len(segs) >= 2 and len(isegs) >= 2 and info.selfty == segs[-2]
                  and isegs[-2] == segs[-2] and best is None):
                # cross-crate reference through a re-export path: `mimium_lang::runtime::vm::Program::get_fun_index`
                # vs item `vm::program::<impl Program>::get_fun_index`
                best = (mir, name, info)
            elif len(segs) >= 2 and len(isegs) == 1 and best is None:
                # reference `module::free_fn` vs item `free_fn`
                if info is None and not segs[-2][:1].isupper():
                    best = (mir, name, info)
            elif len(segs) == 1 and len(isegs) >= 2 and info is None and best is None:
                # reference `free_fn` vs item `module::free_fn`
                if not isegs[-2][:1].isupper():
                    best = (mir, name, info)
        return best

    def generics_of_fn(self, mir, name, info):
        """names of the generic type parameters of fn `name`: impl generics + fn generics (from source)"""
        key = name
        if key in self.fn_generics:
            return self.fn_generics[key]
        gens_impl = list(info.generics) if info is not None else []
        gens_fn = []
        m = self._impl_re.search(name)
        fname = split_path(name)[-1]
        k = fname.find('<')
        fname = fname[:k] if k > 0 else fname
        files = []
        if m:
            files = [(m.group(1), int(m.group(2)))]
        else:
            # free function: search all sources known from impl spans is not possible; scan crate sources lazily
            files = [(f, 1) for f in self._all_source_files()]
        pat = re.compile(r'\bfn\s+' + re.escape(fname) + r'\s*<')
        for f, start in files:
            lines = self.src_lines(f)
            for li in range(start - 1, len(lines)):
                mm = pat.search(lines[li])
                if mm:
                    text = ' '.join(lines[li: li + 8])
                    p0 = text.find('<', pat.search(text).start())
                    end = match_close(text, p0)
                    for g in split_top(text[p0 + 1:end]):
                        g = g.strip()
                        if g and not g.startswith("'"):
                            g = g.split(':')[0].strip()
                            gens_fn.append(g[6:].strip() if g.startswith('const ') else g)
                    break
            if gens_fn:
                break
        self.fn_generics[key] = (gens_impl, gens_fn)
        return self.fn_generics[key]

    def _all_source_files(self):
        if not hasattr(self, '_allsrc'):
            import os
            out = []
            for lst in self.layouts.structs.values():
                for s in lst:
                    if s.file.startswith('/'):
                        out.append(s.file)
            self._allsrc = sorted(set(out))
        return self._allsrc


def _inside_angle(s, pos):
    d = 0
    for c in s[:pos]:
        if c == '<':
            d += 1
        elif c == '>':
            d -= 1
    return d > 0


# ------------------------------------------------------------------------------------------------
# Explorer: path enumeration by re-execution
# ------------------------------------------------------------------------------------------------
class Finding:
    def __init__(self, kind, msg, model, where, decisions):
        self.kind, self.msg, self.model, self.where, self.decisions = kind, msg, model, where, decisions

    def __repr__(self):
        return 'Finding(%s, %s @ %s)' % (self.kind, self.msg, self.where)


class Explorer:
    """Runs `fn(ctx)` once per feasible path.  ctx = Interp bound to this explorer."""

    def __init__(self, smt, max_paths=2000):
        self.smt = smt
        self.max_paths = max_paths
        self.findings = []
        self.unsupported = []
        self.truncated = False
        self.path_results = []

    def explore(self, interp, fn):
        work = [[]]
        npaths = 0
        while work:
            if npaths >= self.max_paths:
                self.truncated = True
                break
            prefix = work.pop()
            npaths += 1
            self.smt.stats.paths += 1
            self.smt.begin_path()
            interp.begin_path(prefix, work)
            try:
                res = fn(interp)
                self.path_results.append(('ok', res, list(interp.decisions)))
            except PanicReached as p:
                model = getattr(p, 'model', None)
                links = getattr(interp, 'path_links', None) or []
                if model is None and self.smt.check(*links) == z3.sat:
                    model = self.smt.model()
                self.findings.append(Finding(p.kind, p.msg, model, getattr(p, 'where', ''), list(interp.decisions)))
                self.path_results.append(('panic', p.msg, list(interp.decisions)))
            except Unsupported as u:
                self.unsupported.append((str(u), getattr(u, 'where', '')))
                self.path_results.append(('unsupported', str(u), list(interp.decisions)))
                if 'time budget' in str(u):
                    self.truncated = True
                    work[:] = []
            except PathInfeasible:
                self.path_results.append(('infeasible', None, list(interp.decisions)))
            except PathEnd:
                self.path_results.append(('end', None, list(interp.decisions)))
            finally:
                self.smt.end_path()
        return self.path_results


# ------------------------------------------------------------------------------------------------
# the interpreter
# ------------------------------------------------------------------------------------------------
class Frame:
    __slots__ = ('body', 'locals', 'tyenv', 'bb', 'name')


class Interp:
    def __init__(self, crate, smt, models=None):
        self.crate = crate
        self.smt = smt
        self.layouts = crate.layouts
        self.models = models
        self.decisions = []
        self.prefix = []
        self.work = None
        self.stack = []
        self.const_cache = {}
        self.callee_cache = {}
        self.trace_calls = bool(os.environ.get("MIRSYM_TRACE"))
        self.functions_used = {}
        self.stubs_used = {}
        self.hooks = {}            # name -> python callable(interp, args) overriding MIR fns
        self.deadline = None               # wall-clock limit checked at every symbolic branch
        self.keep_raw_conditions = False   # True: path conditions are stored unsimplified (for the LIA shadow)
        self.observers = {}        # last path segment -> callable(interp, full name, args): called before the MIR body runs
        self.step_limit = 5_000_000
        self.steps = 0
        self.obligations = 0
        self.obligations_failed = []
        self.loop_guard = None

    # -- path management ---------------------------------------------------------------------
    def begin_path(self, prefix, work):
        self.path_links = None
        self.prefix = prefix
        self.work = work
        self.decisions = []
        self.stack = []
        self.steps = 0
        self._statics = {}

    def where(self):
        return ' > '.join('%s:bb%s' % (split_path(f.name)[-1], f.bb) for f in self.stack[-6:])

    def branch(self, cond):
        """cond: z3 Bool.  returns python bool, forking the path when both are feasible."""
        sc = z3.simplify(cond)
        if z3.is_true(sc):
            return True
        if z3.is_false(sc):
            return False
        if self.deadline is not None and time.time() > self.deadline:
            raise Unsupported('time budget for this analysis exhausted')
        if self.keep_raw_conditions is False:
            cond = sc
        k = len(self.decisions)
        if k < len(self.prefix):
            d = self.prefix[k]
            self.decisions.append(d)
            self.smt.add(cond if d else z3.Not(cond))
            return d
        rt = self.smt.check(cond)
        rf = self.smt.check(z3.Not(cond))
        if rt == z3.unknown or rf == z3.unknown:
            raise Unsupported('solver unknown on branch feasibility')
        if rt == z3.sat and rf == z3.sat:
            self.work.append(self.decisions + [False])
            self.decisions.append(True)
            self.smt.add(cond)
            return True
        if rt == z3.sat:
            self.decisions.append(True)
            self.smt.add(cond)
            return True
        if rf == z3.sat:
            self.decisions.append(False)
            self.smt.add(z3.Not(cond))
            return False
        raise PathInfeasible()

    def require(self, cond, msg, kind='assert'):
        """proof obligation: cond must hold on this path.  Failing models are recorded; execution continues under cond."""
        self.obligations += 1
        if isinstance(cond, bool):
            if not cond:
                raise PanicReached(msg, kind)
            return
        cond = z3.simplify(cond)
        if z3.is_true(cond):
            return
        if z3.is_false(cond):
            raise PanicReached(msg, kind)
        if self.branch(cond):
            return
        raise PanicReached(msg, kind)

    # -- scalar helpers ------------------------------------------------------------------------
    def bv(self, sc):
        """z3 BV of an integer scalar"""
        v = sc.v
        if isinstance(v, int):
            return z3.BitVecVal(v, INT_W[sc.t])
        return v

    def truth(self, sc):
        """python bool of a bool scalar, forking if symbolic"""
        v = sc.v
        if isinstance(v, int):
            return v != 0
        return self.branch(v == 1)

    def concretize(self, sc, what='value'):
        v = sc.v if isinstance(sc, Sc) else sc
        if isinstance(v, int):
            return v
        v2 = z3.simplify(v)
        if z3.is_bv_value(v2):
            return v2.as_long()
        raise Unsupported('symbolic %s must be concrete' % what)

    # -- constants -----------------------------------------------------------------------------
    _int_const = re.compile(r'^(-?\d+)_(u8|u16|u32|u64|u128|usize|i8|i16|i32|i64|i128|isize)$')
    _flt_const = re.compile(r'^(-?(?:\d+(?:\.\d+)?(?:[eE][-+]?\d+)?|inf|NaN))(f64|f32)$')

    def eval_const(self, text, frame):
        c = self.const_cache.get(text)
        if c is not None:
            return copy_val(c)
        v = self._eval_const(text, frame)
        if '<' not in text and 'promoted[' not in text:
            self.const_cache[text] = v
        return copy_val(v)

    def _eval_const(self, text, frame):
        t = text.strip()
        m = self._int_const.match(t)
        if m:
            w = INT_W[m.group(2)]
            return Sc(m.group(2), int(m.group(1)) & mask(w))
        if t == 'true':
            return Sc('bool', 1)
        if t == 'false':
            return Sc('bool', 0)
        if t == '()':
            return UNIT
        m = self._flt_const.match(t)
        if m:
            x = float(m.group(1).replace('inf', 'inf').replace('NaN', 'nan'))
            if m.group(2) == 'f32':
                return Sc('f32', x)
            return Sc('f64', S.f2b(x))
        if t.startswith('"'):
            return StrV(_unescape(t[1:-1]))
        if t.startswith("'") and t.endswith("'"):
            return Sc('char', ord(_unescape(t[1:-1])))
        if t.startswith('b"'):
            data = _unescape(t[2:-1])
            return Ref([Agg('array', None, [Sc('u8', ord(ch) & 255) for ch in data])], 0)
        m = re.match(r'^(?:core::num::<impl )?(u8|u16|u32|u64|u128|usize|i8|i16|i32|i64|i128|isize)>?::(MAX|MIN)$', t)
        if m:
            w = INT_W[m.group(1)]
            if m.group(1) in SIGNED:
                val = (1 << (w - 1)) - 1 if m.group(2) == 'MAX' else (1 << (w - 1))
            else:
                val = mask(w) if m.group(2) == 'MAX' else 0
            return Sc(m.group(1), val)
        m = re.match(r'^f64::(INFINITY|NEG_INFINITY|NAN|EPSILON|MAX|MIN|consts::PI)$', t)
        if m:
            import math
            d = {'INFINITY': float('inf'), 'NEG_INFINITY': float('-inf'), 'NAN': float('nan'),
                 'EPSILON': sys.float_info.epsilon, 'MAX': sys.float_info.max, 'MIN': -sys.float_info.max,
                 'consts::PI': math.pi}
            return Sc('f64', S.f2b(d[m.group(1)]))
        if t.endswith('SizedTypeProperties>::ALIGN') or t.endswith('SizedTypeProperties>::SIZE'):
            return Sc('usize', 8)
        if t.startswith('ZeroSized'):
            zt = t.split(':', 1)[1].strip() if ':' in t else ''
            if zt.startswith('{closure@'):
                return Agg('closure:' + zt, None, [TyEnvTag(frame.tyenv)] if (frame is not None and frame.tyenv) else [])
            m2 = re.match(r'^(?:for<[^>]*> )?(?:unsafe )?(?:extern "[^"]*" )?fn\(.*\{(.*)\}$', zt)
            if m2:
                return FnV(m2.group(1))
            return UNIT
        if t.startswith('PhantomData'):
            return UNIT
        if t.startswith('{alloc'):
            # `{allocN: &T}`: a reference to a static item; the dump names it after the function: `allocN (static: NAME, size: ..)`.
            # The static's own MIR body (its initialiser) is evaluated once per path and shared by reference.
            m = re.match(r'\{(alloc\d+): &', t)
            if m:
                r_ = self.eval_static_ref(m.group(1))
                if r_ is not None:
                    return r_
        if t.startswith('{alloc') or t.startswith('{transmute') or t.startswith('Indirect'):
            raise Unsupported('memory-dump constant %s' % t[:40])
        # const item / promoted / fn item / unit enum variant
        return self.eval_path_const(t, frame)

    def eval_static_ref(self, alloc):
        if not hasattr(self, '_statics'):
            self._statics = {}
        key = alloc
        for mir in self.crate.mirs:
            idx = getattr(mir, '_alloc_static', None)
            if idx is None:
                idx = {}
                for ln in mir.lines:
                    if ln.startswith('alloc') and ' (static: ' in ln:
                        mm = re.match(r'(alloc\d+) \(static: ([A-Za-z0-9_:]+),', ln)
                        if mm:
                            idx.setdefault(mm.group(1), mm.group(2))
                mir._alloc_static = idx
            name = idx.get(alloc)
            if name is None:
                continue
            cell = self._statics.get((id(mir), name))
            if cell is None:
                item = None
                for n in mir.names():
                    if n == name or n.endswith('::' + name) or split_path(n)[-1] == split_path(name)[-1]:
                        kind = mir.items[n][0]
                        if kind.startswith('static') or kind == 'const':
                            item = n
                            break
                if item is None:
                    return None
                body = mir.get(item)
                v = self.call_body(mir, item, body, [], None)
                cell = [v]
                self._statics[(id(mir), name)] = cell
            return Ref(cell, 0, mut=False)
        return None

    def eval_path_const(self, t, frame):
        segs = [strip_generics(s) if not s.startswith('<') else s for s in split_path(t)]
        nsegs = []
        for s in split_path(t):
            k = s.find('<')
            nsegs.append(s[:k] if k >= 0 else s)
        nsegs = [x for x in nsegs if x]
        last = nsegs[-1]
        if last.startswith('promoted[') or last.isupper() or re.match(r'^[A-Z][A-Z0-9_]*$', last) or last.startswith('{constant'):
            if len(nsegs) == 1 and frame is not None and frame.tyenv and last in frame.tyenv:
                # const generic parameter (`fn copy_words<const N: usize>`), bound by the caller's turbofish
                mcg = re.fullmatch(r'(\d+)(?:_?usize)?', str(frame.tyenv[last]).strip())
                if mcg:
                    return Sc('usize', int(mcg.group(1)))
            r = self.crate.resolve(nsegs)
            if r is not None:
                mir, name, info = r
                body = mir.get(name)
                if body.kind == 'const':
                    if body.const_value is not None and not body.blocks:
                        return self.eval_operand(body.const_value, frame)
                    env = frame.tyenv if (frame is not None and last.startswith('promoted[')) else self.bind_generics(mir, name, info, t, frame)
                    return self.call_body(mir, name, body, [], env)
            if last == 'STATIC_MAX_LEVEL':
                return Agg('LevelFilter', 0, [])   # logging off
            raise Unsupported('const item %s' % t)
        # enum unit variant or tuple-struct ctor / fn item
        if len(nsegs) >= 2:
            e = self.layouts.find_enum(nsegs[-2], nsegs[-1], hint=nsegs[-3] if len(nsegs) >= 3 else None)
            if e is not None:
                vi = e.variant_index(nsegs[-1])
                if e.variants[vi][3] == 0:
                    return Agg(e.name, vi, [])
                return FnV(t)
        return FnV(t)

    # -- places --------------------------------------------------------------------------------
    def place(self, p, frame):
        """-> (cont, key) or Slice (for unsized slice places)"""
        k = p[0]
        if k == 'local':
            return (frame.locals, p[1])
        if k == 'deref':
            v = self.load(self.place(p[1], frame))
            tv = type(v)
            if tv is Ref:
                return (v.cont, v.key)
            if tv is Slice or tv is StrV:
                return v
            if tv is BoxV:
                return (v.cell, 0)
            if tv is VecV:
                # deref of a Vec-like smart pointer handled by models; here: treat as slice place
                return Slice(v.buf, 0, len(v.buf))
            if hasattr(v, 'deref_place'):
                return v.deref_place()
            raise Unsupported('deref of %r' % (v,))
        if k == 'field':
            base = self.place(p[1], frame)
            if type(base) is not tuple:
                raise Unsupported('field of unsized place')
            if not isinstance(base[1], int):
                base = self.concrete_slot(base)
            agg = base[0][base[1]]
            if type(agg) is not Agg:
                if agg is UNINIT or agg is MOVED:
                    agg = Agg('?', None, [])
                    base[0][base[1]] = agg
                elif hasattr(agg, 'field_place'):
                    return agg.field_place(p[2])
                else:
                    raise Unsupported('field .%d of %r' % (p[2], agg))
            f = agg.fields
            while len(f) <= p[2]:
                f.append(UNINIT)
            return (f, p[2])
        if k == 'downcast':
            base = self.place(p[1], frame)
            return base
        if k == 'index':
            base = self.place(p[1], frame)
            idx = frame.locals[p[2]]
            return self.index_place(base, idx.v)
        if k == 'cindex':
            base = self.place(p[1], frame)
            if type(base) is Slice:
                n = base.len
                i = (n - p[2]) if p[4] else p[2]
                return self.index_place(base, i)
            arr = base[0][base[1]]
            i = (len(arr.fields) - p[2]) if p[4] else p[2]
            return (arr.fields, i)
        if k == 'subslice':
            base = self.place(p[1], frame)
            if type(base) is Slice:
                a = p[2]
                b = (base.len - p[3]) if p[4] else p[3]
                return Slice(base.buf, base.start + a, b - a)
            arr = base[0][base[1]]
            a = p[2]
            b = (len(arr.fields) - p[3]) if p[4] else p[3]
            return Slice(arr.fields, a, b - a)
        raise Unsupported('place %r' % (p,))

    def concrete_slot(self, pl):
        """(cont, symbolic key) -> (cont, concrete key): in-bounds obligation + fork over positions"""
        cont, key = pl
        key = z3.simplify(key)
        if z3.is_bv_value(key):
            return (cont, key.as_long())
        n = len(cont)
        self.require(z3.ULT(key, z3.BitVecVal(n, key.size())), 'symbolic index out of bounds of object of %d elements' % n, 'oob')
        return (cont, self.fork_index(key, 0, n))

    def index_place(self, base, i):
        if type(base) is Slice:
            st = base.start
            if isinstance(i, int) and isinstance(st, int):
                return (base.buf, st + i)
            return (base.buf, _addv(st, i))
        arr = base[0][base[1]]
        if type(arr) is Agg:
            return (arr.fields, i)
        if type(arr) is VecV:
            return (arr.buf, i)
        raise Unsupported('index into %r' % (arr,))

    def load(self, pl):
        if type(pl) is not tuple:
            return pl   # unsized place used as value (re-borrow)
        cont, key = pl
        if isinstance(key, int):
            try:
                return cont[key]
            except IndexError:
                raise PanicReached('load out of bounds of object (index %d, len %d)' % (key, len(cont)), 'oob')
        return self.load_sym(cont, key)

    def load_sym(self, cont, key):
        """symbolic element index: ITE chain over the (concrete-length) buffer; in-bounds is an obligation"""
        key = z3.simplify(key)
        if z3.is_bv_value(key):
            return self.load((cont, key.as_long()))
        n = len(cont)
        self.require(z3.ULT(key, z3.BitVecVal(n, key.size())), 'symbolic index out of bounds of object of %d elements' % n, 'oob')
        lo, hi = self.index_range(key, n)
        first = cont[lo]
        if type(first) is not Sc:
            return cont[self.fork_index(key, lo, hi)]
        t = first.t
        if t == 'f64':
            res = self.smt.fp_lift(cont[hi - 1].v)
            for i in range(hi - 2, lo - 1, -1):
                res = z3.If(key == i, self.smt.fp_lift(cont[i].v), res)
        else:
            w = INT_W[t]
            res = self.bv(cont[hi - 1])
            for i in range(hi - 2, lo - 1, -1):
                res = z3.If(key == i, self.bv(cont[i]), res)
        return Sc(t, res)

    def fork_index(self, key, lo, hi):
        """concretise a symbolic index into a container of aggregates by forking over the feasible positions"""
        if hi - lo > 64:
            raise Unsupported('symbolic index into a container of %d aggregates' % (hi - lo))
        for i in range(lo, hi):
            if self.branch(key == z3.BitVecVal(i, key.size())):
                return i
        raise PathInfeasible()

    def index_range(self, key, n):
        """cheap interval for a symbolic index (to keep ITE chains short): use registered hints"""
        h = getattr(self, 'index_hints', None)
        if h:
            r = h.get(key.get_id())
            if r:
                return max(0, r[0]), min(n, r[1])
        return 0, n

    def store(self, pl, val):
        if type(pl) is not tuple:
            raise Unsupported('store to unsized place')
        cont, key = pl
        if isinstance(key, int):
            if key >= len(cont):
                if key > 100000:
                    raise PanicReached('store out of bounds of object', 'oob')
                while len(cont) <= key:
                    cont.append(UNINIT)
            cont[key] = val
            return
        key = z3.simplify(key)
        if z3.is_bv_value(key):
            return self.store((cont, key.as_long()), val)
        n = len(cont)
        self.require(z3.ULT(key, z3.BitVecVal(n, key.size())), 'symbolic store index out of bounds of object of %d elements' % n, 'oob')
        lo, hi = self.index_range(key, n)
        if type(val) is not Sc or (n and type(cont[lo]) is not Sc):
            cont[self.fork_index(key, lo, hi)] = val
            return
        for i in range(lo, hi):
            old = cont[i]
            if old.t == 'f64' or val.t == 'f64':
                nv = z3.If(key == i, self.smt.fp_lift(val.v), self.smt.fp_lift(old.v))
            else:
                nv = z3.If(key == i, self.bv(val), self.bv(old))
            cont[i] = Sc(old.t, nv)

    # -- operands --------------------------------------------------------------------------------
    def eval_operand(self, op, frame):
        k = op[0]
        if k == 'copy':
            return copy_val(self.load(self.place(op[1], frame)))
        if k == 'move':
            pl = self.place(op[1], frame)
            v = self.load(pl)
            return v
        if k == 'const':
            return self.eval_const(op[1], frame)
        raise Unsupported('operand %r' % (op,))

    # -- rvalues ---------------------------------------------------------------------------------
    def eval_rvalue(self, rv, frame, dest_ty=None):
        k = rv[0]
        if k == 'use':
            return self.eval_operand(rv[1], frame)
        if k == 'ref' or k == 'rawptr':
            pl = self.place(rv[2], frame)
            if type(pl) is tuple:
                return Ref(pl[0], pl[1], rv[1])
            return pl   # Slice / StrV re-borrow
        if k == 'binop':
            a = self.eval_operand(rv[2], frame)
            b = self.eval_operand(rv[3], frame)
            return self.binop(rv[1], a, b)
        if k == 'unop':
            a = self.eval_operand(rv[2], frame)
            return self.unop(rv[1], a)
        if k == 'cast':
            a = self.eval_operand(rv[1], frame)
            return self.cast(a, self.subst(rv[2], frame), rv[3], frame)
        if k == 'discr':
            v = self.load(self.place(rv[1], frame))
            return self.discriminant(v)
        if k == 'len':
            pl = self.place(rv[1], frame)
            if type(pl) is Slice:
                return Sc('usize', pl.len)
            v = self.load(pl)
            return Sc('usize', len(v.fields))
        if k == 'tuple':
            return Agg('tuple', None, [self.eval_operand(o, frame) for o in rv[1]])
        if k == 'array':
            return Agg('array', None, [self.eval_operand(o, frame) for o in rv[1]])
        if k == 'repeat':
            v = self.eval_operand(rv[1], frame)
            n = self.eval_count(rv[2], frame)
            return Agg('array', None, [copy_val(v) for _ in range(n)])
        if k == 'adt':
            return self.build_adt(rv[1], rv[2], frame)
        if k == 'closure':
            caps = [self.eval_operand(o, frame) for _, o in rv[2]]
            if frame is not None and frame.tyenv:
                caps.append(TyEnvTag(frame.tyenv))
            return Agg('closure:' + rv[1], None, caps)
        if k == 'copyforderef':
            return self.load(self.place(rv[1], frame))
        if k == 'nullop':
            if rv[1] == 'UbChecks' or rv[1] == 'ContractChecks':
                return Sc('bool', 0)
            if rv[1] == 'SizeOf':
                return Sc('usize', self.size_of(self.subst(rv[2], frame)))
            if rv[1] == 'AlignOf':
                return Sc('usize', 8)
        if k == 'shallowbox':
            return BoxV(UNINIT)
        raise Unsupported('rvalue %r' % (rv,))

    def eval_count(self, text, frame):
        text = text.strip()
        if text.startswith('const '):
            text = text[6:]
        m = re.match(r'^(\d+)(_usize)?$', text)
        if m:
            return int(m.group(1))
        v = self.eval_const(text, frame)
        return self.concretize(v)

    def size_of(self, ty):
        ty = ty.strip()
        if ty in INT_W:
            return max(1, INT_W[ty] // 8)
        if ty in ('f64',):
            return 8
        if ty == 'f32':
            return 4
        if ty.startswith('&') or ty.startswith('*'):
            inner = strip_ref(ty)
            return 16 if inner.startswith('[') or inner == 'str' or inner.startswith('dyn ') else 8
        h = type_head(ty)
        if h in ('ClosureIdx', 'DefaultKey', 'KeyData', 'HeapIdx', 'ArrayIdx'):
            return 8
        if ty == '()':
            return 0
        raise Unsupported('size_of %s' % ty)

    def discriminant(self, v):
        if type(v) is Agg:
            if v.variant is None:
                raise Unsupported('discriminant of non-enum %r' % (v,))
            e = self.layouts.find_enum(v.ty.split('::')[-1]) if v.ty not in ('Option', 'Result', 'Ordering', 'ControlFlow') else self.layouts.enums[v.ty][0]
            es = self.layouts.enums.get(v.ty.split('@')[0])
            d = v.variant
            if es:
                e = es[0]
                if '@' in v.ty:
                    for c in es:
                        if c.file == v.ty.split('@')[1]:
                            e = c
                d = e.variants[v.variant][1]
            if v.ty == 'Ordering':
                return Sc('i8', d & 0xff)
            return Sc('isize', d & mask(64))
        if hasattr(v, 'discriminant'):
            return v.discriminant(self)
        raise Unsupported('discriminant of %r' % (v,))

    def build_adt(self, path, fields, frame):
        segs = split_path(path)
        names = []
        for s in segs:
            k = s.find('<')
            names.append(s[:k] if k >= 0 else s)
        names = [n for n in names if n]
        last = names[-1]
        vals = [(n, self.eval_operand(o, frame)) for n, o in fields]
        # enum variant?
        if len(names) >= 2:
            hint = names[-3] if len(names) >= 3 else None
            e = self.layouts.find_enum(names[-2], last, hint=hint)
            if e is not None:
                vi = e.variant_index(last)
                vdef = e.variants[vi]
                out = [UNINIT] * vdef[3]
                for n, v in vals:
                    idx = n if isinstance(n, int) else vdef[2].index(n)
                    out[idx] = v
                return Agg(self.enum_tag(e), vi, out)
        if len(names) == 1 and last not in self.layouts.structs:
            # a variant imported by name (`use ..::ProgramPayload::*` prints as `VmProgram(move _1)`): unique owner enum
            owners = self.layouts.find_enum_by_variant(last)
            if len(owners) == 1:
                e = owners[0]
                vi = e.variant_index(last)
                vdef = e.variants[vi]
                out = [UNINIT] * vdef[3]
                for n, v in vals:
                    idx = n if isinstance(n, int) else vdef[2].index(n)
                    out[idx] = v
                return Agg(self.enum_tag(e), vi, out)
        fnames = [n for n, _ in vals]
        if fnames and all(isinstance(n, str) for n in fnames):
            sd = self.layouts.find_struct(last, fnames, hint=names[-2] if len(names) >= 2 else None)
            if sd is None:
                raise Unsupported('unknown struct %s {%s}' % (path, ','.join(fnames)))
            out = [UNINIT] * len(sd.fields)
            for n, v in vals:
                out[sd.index_of(n)] = v
            return Agg(last, None, out)
        # tuple struct / unit struct
        out = [v for _, v in vals]
        return Agg(last, None, out)

    def enum_tag(self, e):
        lst = self.layouts.enums.get(e.name, [])
        if len(lst) > 1:
            return e.name + '@' + e.file
        return e.name

    def make_enum(self, ename, vname, fields, hint=None):
        e = self.layouts.find_enum(ename, vname, hint=hint)
        return Agg(self.enum_tag(e), e.variant_index(vname), fields)

    # -- arithmetic ------------------------------------------------------------------------------
    def binop(self, op, a, b):
        if type(a) is not Sc or type(b) is not Sc:
            if op in ('Eq', 'Ne') and type(a) in (Ref, FnV) and type(b) in (Ref, FnV):
                eq = (a.cont is b.cont and a.key == b.key) if type(a) is Ref and type(b) is Ref else (a is b)
                return Sc('bool', int(eq if op == 'Eq' else not eq))
            if op == 'Offset' and type(a) is Ref:
                return self.ptr_offset(a, b)
            raise Unsupported('binop %s on %r, %r' % (op, a, b))
        t = a.t
        if t == 'f64':
            return self.fbinop(op, a, b)
        if t == 'f32':
            raise Unsupported('f32 arithmetic')
        w = INT_W[t]
        x, y = a.v, b.v
        signed = t in SIGNED
        if isinstance(x, int) and isinstance(y, int):
            return self._binop_conc(op, t, w, signed, x, y, b.t)
        X = x if not isinstance(x, int) else z3.BitVecVal(x, w)
        if op in ('Shl', 'Shr', 'ShlUnchecked', 'ShrUnchecked'):
            wb = INT_W[b.t]
            Y = y if not isinstance(y, int) else z3.BitVecVal(y, wb)
            if wb < w:
                Y = z3.ZeroExt(w - wb, Y)
            elif wb > w:
                Y = z3.Extract(w - 1, 0, Y)
            Y = Y & (w - 1)
            if op.startswith('Shl'):
                return Sc(t, X << Y)
            return Sc(t, (X >> Y) if signed else z3.LShR(X, Y))
        Y = y if not isinstance(y, int) else z3.BitVecVal(y, w)
        if t == 'bool':
            # bools are BV1
            pass
        if op in ('Add', 'AddUnchecked'):
            return Sc(t, X + Y)
        if op in ('Sub', 'SubUnchecked'):
            return Sc(t, X - Y)
        if op in ('Mul', 'MulUnchecked'):
            return Sc(t, X * Y)
        if op == 'Div':
            return Sc(t, (X / Y) if signed else z3.UDiv(X, Y))
        if op == 'Rem':
            return Sc(t, z3.SRem(X, Y) if signed else z3.URem(X, Y))
        if op == 'BitAnd':
            return Sc(t, X & Y)
        if op == 'BitOr':
            return Sc(t, X | Y)
        if op == 'BitXor':
            return Sc(t, X ^ Y)
        if op in ('Eq', 'Ne', 'Lt', 'Le', 'Gt', 'Ge'):
            c = {'Eq': X == Y, 'Ne': X != Y,
                 'Lt': (X < Y) if signed else z3.ULT(X, Y), 'Le': (X <= Y) if signed else z3.ULE(X, Y),
                 'Gt': (X > Y) if signed else z3.UGT(X, Y), 'Ge': (X >= Y) if signed else z3.UGE(X, Y)}[op]
            return Sc('bool', _b2bv(c))
        if op == 'Cmp':
            lt = (X < Y) if signed else z3.ULT(X, Y)
            if self.branch(lt):
                return Agg('Ordering', 0, [])
            if self.branch(X == Y):
                return Agg('Ordering', 1, [])
            return Agg('Ordering', 2, [])
        if op in ('AddWithOverflow', 'SubWithOverflow', 'MulWithOverflow'):
            if op[0] == 'A':
                r = X + Y
                ov = z3.Not(z3.BVAddNoOverflow(X, Y, signed)) if not signed else z3.Or(z3.Not(z3.BVAddNoOverflow(X, Y, True)), z3.Not(z3.BVAddNoUnderflow(X, Y)))
            elif op[0] == 'S':
                r = X - Y
                ov = z3.Not(z3.BVSubNoUnderflow(X, Y, signed)) if not signed else z3.Or(z3.Not(z3.BVSubNoOverflow(X, Y)), z3.Not(z3.BVSubNoUnderflow(X, Y, True)))
            else:
                r = X * Y
                ov = z3.Or(z3.Not(z3.BVMulNoOverflow(X, Y, signed)), z3.Not(z3.BVMulNoUnderflow(X, Y))) if signed else z3.Not(z3.BVMulNoOverflow(X, Y, False))
            return Agg('tuple', None, [Sc(t, r), Sc('bool', _b2bv(ov))])
        raise Unsupported('int binop %s' % op)

    def _binop_conc(self, op, t, w, signed, x, y, bt):
        M = mask(w)
        if op in ('Add', 'AddUnchecked'):
            return Sc(t, (x + y) & M)
        if op in ('Sub', 'SubUnchecked'):
            return Sc(t, (x - y) & M)
        if op in ('Mul', 'MulUnchecked'):
            if signed:
                return Sc(t, (to_signed(x, w) * to_signed(y, w)) & M)
            return Sc(t, (x * y) & M)
        if op in ('Div', 'Rem'):
            if y == 0:
                raise PanicReached('division by zero')
            if signed:
                sx, sy = to_signed(x, w), to_signed(y, w)
                q = abs(sx) // abs(sy)
                if (sx < 0) != (sy < 0):
                    q = -q
                r = sx - q * sy
                return Sc(t, (q if op == 'Div' else r) & M)
            return Sc(t, (x // y) if op == 'Div' else (x % y))
        if op == 'BitAnd':
            return Sc(t, x & y)
        if op == 'BitOr':
            return Sc(t, x | y)
        if op == 'BitXor':
            return Sc(t, x ^ y)
        if op in ('Shl', 'ShlUnchecked'):
            return Sc(t, (x << (y & (w - 1))) & M)
        if op in ('Shr', 'ShrUnchecked'):
            sh = y & (w - 1)
            if signed:
                return Sc(t, (to_signed(x, w) >> sh) & M)
            return Sc(t, x >> sh)
        if signed:
            sx, sy = to_signed(x, w), to_signed(y, w)
        else:
            sx, sy = x, y
        if op == 'Eq':
            return Sc('bool', int(x == y))
        if op == 'Ne':
            return Sc('bool', int(x != y))
        if op == 'Lt':
            return Sc('bool', int(sx < sy))
        if op == 'Le':
            return Sc('bool', int(sx <= sy))
        if op == 'Gt':
            return Sc('bool', int(sx > sy))
        if op == 'Ge':
            return Sc('bool', int(sx >= sy))
        if op == 'Cmp':
            return Agg('Ordering', 0 if sx < sy else (1 if sx == sy else 2), [])
        if op in ('AddWithOverflow', 'SubWithOverflow', 'MulWithOverflow'):
            r = {'A': sx + sy, 'S': sx - sy, 'M': sx * sy}[op[0]]
            if signed:
                ov = not (-(1 << (w - 1)) <= r < (1 << (w - 1)))
            else:
                ov = not (0 <= r <= M)
            return Agg('tuple', None, [Sc(t, r & M), Sc('bool', int(ov))])
        raise Unsupported('int binop %s' % op)

    def fbinop(self, op, a, b):
        x, y = a.v, b.v
        smt = self.smt
        if isinstance(x, int) and isinstance(y, int):
            fx, fy = S.b2f(x), S.b2f(y)
            if op == 'Add':
                return Sc('f64', _canon(S.f2b(fx + fy)))
            if op == 'Sub':
                return Sc('f64', _canon(S.f2b(fx - fy)))
            if op == 'Mul':
                return Sc('f64', _canon(S.f2b(fx * fy)))
            if op == 'Div':
                return Sc('f64', _canon(S.f2b(_fdiv(fx, fy))))
            if op == 'Rem':
                from .models import _libm2
                return Sc('f64', _canon(S.f2b(_libm2('fmod')(fx, fy))))
            c = {'Eq': fx == fy, 'Ne': fx != fy, 'Lt': fx < fy, 'Le': fx <= fy, 'Gt': fx > fy, 'Ge': fx >= fy}.get(op)
            if c is not None:
                return Sc('bool', int(c))
            raise Unsupported('float binop %s' % op)
        X, Y = smt.fp_lift(x), smt.fp_lift(y)
        if op == 'Add':
            return Sc('f64', z3.fpAdd(S.RNE, X, Y))
        if op == 'Sub':
            return Sc('f64', z3.fpSub(S.RNE, X, Y))
        if op == 'Mul':
            return Sc('f64', z3.fpMul(S.RNE, X, Y))
        if op == 'Div':
            return Sc('f64', z3.fpDiv(S.RNE, X, Y))
        if op == 'Rem':
            return Sc('f64', self.models.fmod(self, X, Y))
        c = {'Eq': lambda: z3.fpEQ(X, Y), 'Ne': lambda: z3.Not(z3.fpEQ(X, Y)), 'Lt': lambda: z3.fpLT(X, Y),
             'Le': lambda: z3.fpLEQ(X, Y), 'Gt': lambda: z3.fpGT(X, Y), 'Ge': lambda: z3.fpGEQ(X, Y)}.get(op)
        if c is not None:
            return Sc('bool', _b2bv(c()))
        raise Unsupported('float binop %s' % op)

    def unop(self, op, a):
        if op == 'PtrMetadata':
            if type(a) is Slice:
                return Sc('usize', a.len)
            if type(a) is StrV:
                return Sc('usize', len(a.s.encode()))
            return UNIT
        if type(a) is not Sc:
            raise Unsupported('unop %s on %r' % (op, a))
        t = a.t
        if t == 'f64':
            if op == 'Neg':
                if isinstance(a.v, int):
                    return Sc('f64', a.v ^ (1 << 63))
                return Sc('f64', z3.fpNeg(a.v))
            raise Unsupported('float unop %s' % op)
        w = INT_W[t]
        if isinstance(a.v, int):
            if op == 'Not':
                return Sc(t, (~a.v) & mask(w))
            if op == 'Neg':
                return Sc(t, (-a.v) & mask(w))
        else:
            if op == 'Not':
                return Sc(t, ~a.v)
            if op == 'Neg':
                return Sc(t, -a.v)
        raise Unsupported('unop %s' % op)

    def ptr_offset(self, ref, cnt):
        c = cnt.v
        if INT_W.get(cnt.t) == 64 and cnt.t in SIGNED and isinstance(c, int):
            c = to_signed(c, 64)
        if isinstance(ref.key, int) and isinstance(c, int):
            return Ref(ref.cont, ref.key + c, ref.mut)
        return Ref(ref.cont, _addv(ref.key, c), ref.mut)

    # -- casts -------------------------------------------------------------------------------------
    def cast(self, a, ty, kind, frame):
        if kind == 'IntToInt':
            return self.int_to_int(a, ty)
        if kind == 'IntToFloat':
            if ty != 'f64':
                raise Unsupported('int to %s' % ty)
            w = INT_W[a.t]
            signed = a.t in SIGNED
            if isinstance(a.v, int):
                x = to_signed(a.v, w) if signed else a.v
                return Sc('f64', S.f2b(float(x)))
            if signed:
                return Sc('f64', z3.fpSignedToFP(S.RNE, a.v, S.F64))
            return Sc('f64', z3.fpUnsignedToFP(S.RNE, a.v, S.F64))
        if kind == 'FloatToInt':
            return self.float_to_int(a, ty)
        if kind == 'FloatToFloat':
            raise Unsupported('float to float cast')
        if kind.startswith('PointerCoercion'):
            if 'Unsize' in kind:
                return self.unsize(a, ty)
            if 'ReifyFnPointer' in kind or 'ClosureFnPointer' in kind or 'UnsafeFnPointer' in kind:
                return a
            if 'MutToConstPointer' in kind or 'ArrayToPointer' in kind:
                if 'ArrayToPointer' in kind and type(a) is Ref:
                    arr = a.cont[a.key]
                    return Ref(arr.fields, 0, a.mut)
                return a
            return a
        if kind in ('PtrToPtr', 'FnPtrToPtr', 'Transmute', 'Subtype'):
            if kind == 'Transmute':
                return self.transmute(a, ty)
            if kind == 'PtrToPtr' and type(a) is Slice:
                inner = strip_ref(ty)
                if not inner.startswith('['):
                    return Ref(a.buf, a.start)
            if kind == 'PtrToPtr' and type(a) is Ref and strip_ref(ty) == 'u8' and isinstance(a.key, int):
                tgt = a.cont[a.key] if a.key < len(a.cont) else None
                if tgt is None or (type(tgt) is Sc and tgt.t in ('u64', 'i64', 'f64')):
                    return BytePtr(a.cont, a.key)
            return a
        if kind in ('PointerExposeProvenance', 'PointerExposeAddress'):
            raise Unsupported('pointer to integer cast')
        if kind in ('PointerWithExposedProvenance', 'PointerFromExposedAddress'):
            raise Unsupported('integer to pointer cast')
        raise Unsupported('cast kind %s' % kind)

    def int_to_int(self, a, ty):
        if type(a) is Agg and a.variant is not None:
            a = self.discriminant(a)
        if ty not in INT_W:
            raise Unsupported('IntToInt to %s' % ty)
        ws, wd = INT_W[a.t], INT_W[ty]
        v = a.v
        if isinstance(v, int):
            if a.t in SIGNED:
                v = to_signed(v, ws)
            return Sc(ty, v & mask(wd))
        if wd == ws:
            return Sc(ty, v)
        if wd < ws:
            return Sc(ty, z3.Extract(wd - 1, 0, v))
        if a.t in SIGNED:
            return Sc(ty, z3.SignExt(wd - ws, v))
        return Sc(ty, z3.ZeroExt(wd - ws, v))

    def float_to_int(self, a, ty):
        """Rust `as`: saturating, NaN -> 0"""
        w = INT_W[ty]
        signed = ty in SIGNED
        lo = -(1 << (w - 1)) if signed else 0
        hi = (1 << (w - 1)) - 1 if signed else mask(w)
        if isinstance(a.v, int):
            x = S.b2f(a.v)
            if x != x:
                return Sc(ty, 0)
            if x == float('inf') or x >= float(hi + 1):
                return Sc(ty, hi & mask(w))
            if x == float('-inf') or x < float(lo):
                return Sc(ty, lo & mask(w))
            return Sc(ty, int(x) & mask(w))
        X = a.v
        views = getattr(self.smt, 'int_views', None)
        if views:
            v = views.get((X.get_id(), ty))
            if v is not None:
                return Sc(ty, v[1])
            # round / ceil / floor / trunc of a value that has an integer view (the owner of the view guarantees 0 <= Y < 2^52,
            # finite): (f(Y) as uN) = view + {0,1}, the increment being a fresh boolean that stands for the fractional part of Y
            # (every fractional part is possible for every integer part, so nothing is lost); the exact FP meaning of the boolean
            # is kept in smt.int_view_links and only added when a witness is extracted
            if z3.is_app(X) and X.decl().kind() == z3.Z3_OP_FPA_ROUND_TO_INTEGRAL and X.num_args() == 2:
                rm, Y = X.arg(0), X.arg(1)
                vy = views.get((Y.get_id(), ty))
                if vy is not None:
                    rk = rm.decl().kind()
                    if rk in (z3.Z3_OP_FPA_RM_TOWARD_ZERO, z3.Z3_OP_FPA_RM_TOWARD_NEGATIVE):
                        return Sc(ty, vy[1])
                    name = {z3.Z3_OP_FPA_RM_TOWARD_POSITIVE: 'fracpos', z3.Z3_OP_FPA_RM_NEAREST_TIES_TO_AWAY: 'fracgehalf',
                            z3.Z3_OP_FPA_RM_NEAREST_TIES_TO_EVEN: 'roundsup'}.get(rk)
                    if name is not None:
                        b = z3.Bool('%s_%d' % (name, Y.get_id()))
                        frac = z3.fpSub(S.RNE, Y, z3.fpRoundToIntegral(S.RTZ, Y))
                        if name == 'fracpos':
                            link = b == z3.fpGT(frac, z3.FPVal(0.0, S.F64))
                        elif name == 'fracgehalf':
                            link = b == z3.fpGEQ(frac, z3.FPVal(0.5, S.F64))
                        else:
                            link = b == z3.fpGT(X, z3.fpRoundToIntegral(S.RTZ, Y))
                        ll = getattr(self.smt, 'int_view_links', None)
                        if ll is None:
                            ll = self.smt.int_view_links = []
                        if not any(l.eq(link) for l in ll):
                            ll.append(link)
                        return Sc(ty, vy[1] + z3.If(b, z3.BitVecVal(1, w), z3.BitVecVal(0, w)))
        fhi = z3.FPVal(float(hi + 1), S.F64)   # 2^63 / 2^64 exactly representable
        flo = z3.FPVal(float(lo), S.F64)
        conv = z3.fpToSBV(S.RTZ, X, z3.BitVecSort(w)) if signed else z3.fpToUBV(S.RTZ, X, z3.BitVecSort(w))
        r = z3.If(z3.fpIsNaN(X), z3.BitVecVal(0, w),
                  z3.If(z3.fpGEQ(X, fhi), z3.BitVecVal(hi & mask(w), w),
                        z3.If(z3.fpLT(X, flo) if signed else z3.fpLEQ(X, z3.FPVal(0.0, S.F64)), z3.BitVecVal(lo & mask(w), w), conv)))
        return Sc(ty, r)

    def unsize(self, a, ty):
        inner = strip_ref(ty)
        if inner.startswith('[') or inner == 'str':
            if type(a) is Ref:
                arr = a.cont[a.key]
                if type(arr) is Agg:
                    return Slice(arr.fields, 0, len(arr.fields))
            if type(a) in (Slice, StrV):
                return a
            raise Unsupported('unsize %r to %s' % (a, ty))
        # &T -> &dyn Trait : keep the concrete pointer
        return a

    def transmute(self, a, ty):
        ty = ty.strip()
        if type(a) is Sc:
            return self.reinterpret(a, ty)
        if type(a) in (Slice, Ref, FnV, StrV):
            if ty in ('usize', 'u64', 'isize'):
                # pointer -> address (only used by rustc's inserted alignment / null checks): an aligned non-null constant
                return Sc(ty, 0x10000)
            return a
        if type(a) is Agg and len(a.fields) == 1 and type(a.fields[0]) in (Ref, Slice):
            return a.fields[0]
        if type(a) is Agg and len(a.fields) == 1 and type(a.fields[0]) is Agg and len(a.fields[0].fields) == 1 and type(a.fields[0].fields[0]) in (Ref, Slice):
            return a.fields[0].fields[0]
        if type(a) is Agg:
            # newtype wrappers of one word: ClosureIdx(DefaultKey(KeyData{idx,version}))
            return self.reinterpret(self.flatten_word(a), ty)
        raise Unsupported('transmute %r to %s' % (a, ty))

    def flatten_word(self, a):
        if type(a) is Sc:
            return a
        if type(a) is Agg and a.ty == 'KeyData':
            idx, ver = a.fields[0], a.fields[1]
            if isinstance(idx.v, int) and isinstance(ver.v, int):
                return Sc('u64', (ver.v << 32) | idx.v)
            return Sc('u64', z3.Concat(self.bv(ver), self.bv(idx)))
        if type(a) is Agg and len(a.fields) == 1:
            return self.flatten_word(a.fields[0])
        raise Unsupported('flatten %r' % (a,))

    def reinterpret(self, a, ty):
        """bit-cast a 64-bit scalar to another 64-bit type"""
        if ty == a.t:
            return a
        if a.t == 'f64':
            bits = self.smt.fp_to_bits(a.v)
            return self.reinterpret(Sc('u64', bits), ty) if ty != 'u64' else Sc('u64', bits)
        if ty == 'f64':
            return Sc('f64', self.smt.fp_from_bits(a.v))
        if ty in INT_W:
            if INT_W[ty] == INT_W[a.t]:
                return Sc(ty, a.v)
            if ty == 'bool':
                # transmute_copy::<u64,bool> reads the low byte
                raise Unsupported('reinterpret %s as bool' % a.t)
            raise Unsupported('reinterpret %s as %s' % (a.t, ty))
        h = type_head(ty)
        if h in ('ClosureIdx', 'DefaultKey', 'KeyData', 'HeapIdx', 'ArrayIdx'):
            v = a.v
            if isinstance(v, int):
                kd = Agg('KeyData', None, [Sc('u32', v & 0xffffffff), Sc('u32', (v >> 32) & 0xffffffff)])
            else:
                kd = Agg('KeyData', None, [Sc('u32', z3.Extract(31, 0, v)), Sc('u32', z3.Extract(63, 32, v))])
            dk = Agg('DefaultKey', None, [kd])
            if h == 'ClosureIdx':
                return Agg('ClosureIdx', None, [dk])
            if h == 'KeyData':
                return kd
            return dk
        raise Unsupported('reinterpret %s as %s' % (a.t, ty))

    # -- generics ----------------------------------------------------------------------------------
    def subst(self, ty, frame):
        env = frame.tyenv if frame is not None else None
        if not env:
            return ty
        def rep(m):
            return env.get(m.group(0), m.group(0))
        return re.sub(r'\b[A-Z][A-Za-z0-9]*\b', rep, ty) if any(k in ty for k in env) else ty

    def bind_generics(self, mir, name, info, callee_text, frame):
        """type environment for a call of `name` written as callee_text in frame"""
        raw = split_path(callee_text)
        # merge turbofish segments: ['Vec', '<u64>', 'len'] -> [('Vec', ['u64']), ('len', [])]
        segs = []
        for sg in raw:
            if sg.startswith('<') and segs and not (len(segs) == 0):
                if ' as ' in sg and not segs:
                    segs.append((sg, []))
                else:
                    segs[-1] = (segs[-1][0], last_generics(sg))
            elif sg.startswith('<'):
                segs.append((sg, []))
            else:
                k = sg.find('<')
                segs.append((sg[:k], last_generics(sg)) if k >= 0 else (sg, []))
        args_fn = segs[-1][1] if segs else []
        args_impl = segs[-2][1] if len(segs) >= 2 and not segs[-2][0].startswith('<') else []
        traitq = raw[0].startswith('<') and ' as ' in raw[0]
        if not args_impl and not args_fn and not (traitq and info is not None and info.generics):
            return None
        gi, gf = self.crate.generics_of_fn(mir, name, info)
        env = {}
        if info is not None and info.generics and traitq:
            # <SelfTy<Args> as Trait>::method : bind impl generics positionally from the self type args
            selft = raw[0][1:match_close(raw[0], 0)]
            selft = selft[:_top_as(selft)].strip()
            sargs = last_generics(split_path(strip_ref(selft))[-1]) if not strip_ref(selft).startswith('[') else []
            for g, a in zip(info.selfargs, sargs):
                if g in info.generics:
                    env[g] = self.subst(a, frame)
        if args_impl and info is not None:
            for g, a in zip(info.selfargs, args_impl):
                if g in gi:
                    env[g] = self.subst(a, frame)
        for g, a in zip(gf, args_fn):
            env[g] = self.subst(a, frame)
        return env or None

    # -- calls -------------------------------------------------------------------------------------
    def call_body(self, mir, name, body, args, tyenv):
        if self.hooks:
            h = self.hooks.get(name) or self.hooks.get(split_path(name)[-1])
            if h is not None:
                r_ = h(self, args)
                if r_ is not NotImplemented:           # a hook may decline (e.g. it only stands in for one receiver type)
                    self.stubs_used[split_path(name)[-1]] = self.stubs_used.get(split_path(name)[-1], 0) + 1
                    return r_
        if self.observers:
            ob = self.observers.get(split_path(name)[-1])
            if ob is not None:
                ob(self, name, args)
        self.functions_used[name] = mir.source_lines(name)
        fr = Frame()
        fr.body = body
        fr.name = name
        fr.tyenv = tyenv
        nl = max(body.local_types.keys()) + 1 if body.local_types else 1
        fr.locals = [UNINIT] * nl
        for i, a in zip(body.args, args):
            fr.locals[i] = a
        fr.bb = 0
        self.stack.append(fr)
        if len(self.stack) > 400:
            raise Unsupported('call depth > 400')
        try:
            return self.run(fr)
        except (PanicReached, Unsupported) as e:
            if not hasattr(e, 'where'):
                e.where = self.where()
            raise
        finally:
            self.stack.pop()

    def run(self, fr):
        body = fr.body
        blocks = body.blocks
        locs = fr.locals
        while True:
            blk = blocks[fr.bb]
            self.steps += len(blk)
            self.smt.stats.stmts += len(blk)
            if self.steps > self.step_limit:
                raise Unsupported('step limit exceeded (possible non-termination)')
            for kind, st in blk:
                if kind == 'stmt':
                    k = st[0]
                    if k == 'assign':
                        val = self.eval_rvalue(st[2], fr)
                        dst = st[1]
                        if dst[0] == 'local':
                            locs[dst[1]] = val
                        else:
                            self.store(self.place(dst, fr), val)
                    elif k == 'nop':
                        pass
                    elif k == 'setdiscr':
                        self.set_discriminant(st[1], st[2], fr)
                    elif k == 'intrinsic':
                        if st[1] == 'assume':
                            pass
                        else:
                            raise Unsupported('intrinsic stmt %s' % st[1])
                    elif k == 'unparsed':
                        raise Unsupported('unparsed MIR statement: %s' % st[1][:120])
                    else:
                        raise Unsupported('stmt %r' % (st,))
                else:
                    k = st[0]
                    if k == 'goto':
                        fr.bb = st[1]
                    elif k == 'switch':
                        fr.bb = self.do_switch(st, fr)
                    elif k == 'return':
                        return locs[0] if locs[0] is not UNINIT else UNIT
                    elif k == 'call':
                        ret = self.do_call(st, fr)
                        if st[4] is None:
                            raise Unsupported('diverging call returned: %s' % st[2][:80])
                        dst = st[1]
                        if dst[0] == 'local':
                            locs[dst[1]] = ret
                        else:
                            self.store(self.place(dst, fr), ret)
                        fr.bb = st[4]
                    elif k == 'assert':
                        c = self.eval_operand(st[1], fr)
                        v = c.v
                        if isinstance(v, int):
                            if bool(v) != st[2]:
                                raise PanicReached('assertion failed: ' + st[3], 'assert')
                        else:
                            self.require((v == 1) if st[2] else (v == 0), 'assertion failed: ' + st[3], 'assert')
                        fr.bb = st[4]
                    elif k == 'drop':
                        fr.bb = st[2]
                    elif k == 'unreachable':
                        raise PanicReached('reached MIR `unreachable`', 'unreachable')
                    elif k == 'resume':
                        raise Unsupported('unwind path executed')
                    else:
                        raise Unsupported('terminator %r' % (st,))

    def set_discriminant(self, p, n, fr):
        pl = self.place(p, fr)
        v = self.load(pl)
        if type(v) is Agg:
            v.variant = n
        else:
            self.store(pl, Agg('?enum', n, []))

    def do_switch(self, st, fr):
        v = self.eval_operand(st[1], fr)
        cases, otherwise = st[2], st[3]
        if type(v) is Agg and v.variant is not None:
            v = self.discriminant(v)
        x = v.v
        w = INT_W.get(v.t, 64)
        if isinstance(x, int):
            for val, bb in cases:
                if (val & mask(w)) == x:
                    return bb
            if otherwise is None:
                raise PanicReached('switchInt without matching arm', 'unreachable')
            return otherwise
        for val, bb in cases:
            if self.branch(x == z3.BitVecVal(val & mask(w), w)):
                return bb
        if otherwise is None:
            raise PathInfeasible()
        return otherwise

    def do_call(self, st, fr):
        callee = st[2]
        args = [self.eval_operand(a, fr) for a in st[3]]
        return self.call(callee, args, fr)

    def call(self, callee, args, fr):
        callee = callee.strip()
        if self.trace_calls:
            print('  ' * len(self.stack) + 'call', callee[:100], file=sys.stderr)
        # indirect call through a local holding a fn pointer / closure:  `move _5` / `copy _5`
        if callee.startswith(('move ', 'copy ')):
            from .mirparse import parse_operand
            f = self.eval_operand(parse_operand(callee), fr)
            return self.call_value(f, args, fr)
        # 1. models
        r = self.models.dispatch(self, callee, args, fr)
        if r is not NotImplemented:
            return r
        # 2. MIR bodies
        target = self.resolve_callee(callee, args, fr)
        if target is None:
            if self.hooks:
                # trait methods of a generic parameter (`<H as Host>::now`) have no body of their own: a driver hook may stand in
                nm = re.sub(r'::<.*$', '', callee)
                h = self.hooks.get(split_path(nm)[-1])
                if h is not None:
                    k = split_path(nm)[-1]
                    self.stubs_used[k] = self.stubs_used.get(k, 0) + 1
                    return h(self, args)
            raise Unsupported('no model and no MIR for callee %s' % callee[:160])
        mir, name, info = target
        body = mir.get(name)
        if callee.startswith('<&'):
            # `<&A as PartialEq<&B>>::eq(&&a, &&b)` and friends (core's forwarding impls for references): the resolved body is the
            # impl for A, which takes &A -- strip the extra reference levels
            m = re.match(r'<((?:&(?:\'\w+ )?(?:mut )?)+)', callee)
            extra = m.group(1).count('&') if m else 0
            tr = callee[:callee.find('>::')] if '>::' in callee else callee
            if extra and re.search(r' as (?:std::cmp::|core::cmp::)?(PartialEq|PartialOrd|Ord|Eq)\b', tr):
                def strip(a, n):
                    for _ in range(n):
                        if type(a) is Ref and type(a.cont[a.key]) is Ref:
                            a = a.cont[a.key]
                    return a
                args = [strip(a, extra) for a in args]
        return self.call_body(mir, name, body, args, self.bind_generics(mir, name, info, callee, fr))

    def resolve_callee(self, callee, args, fr):
        key = callee
        c = self.callee_cache.get(key)
        if c is not None:
            return c
        r = self._resolve_callee(callee, args, fr)
        if r is not None and not callee.startswith('<'):
            self.callee_cache[key] = r
        return r

    def _resolve_callee(self, callee, args, fr):
        if callee.startswith('<'):
            end = match_close(callee, 0)
            inner = callee[1:end]
            rest = callee[end + 1:]
            if ' as ' in inner:
                k = _top_as(inner)
                selft = self.subst(inner[:k].strip(), fr)
                trait = type_head(inner[k + 4:].strip())
                mname = strip_generics(rest[2:]) if rest.startswith('::') else rest
                mname = split_path(mname)[-1]
                st = strip_ref(selft)
                if st.startswith('dyn ') and args:
                    # trait object: dispatch on the runtime type of the receiver (&mut Box<dyn T> / &mut dyn T / Box<dyn T>)
                    a0 = args[0]
                    for _ in range(4):
                        if type(a0) is Ref:
                            a0 = a0.cont[a0.key]
                        elif type(a0) is BoxV:
                            a0 = a0.cell[0]
                        else:
                            break
                    if type(a0) is Agg:
                        st = a0.ty.split('@')[0]
                    elif hasattr(a0, 'dyn_type'):
                        st = a0.dyn_type
                if re.fullmatch(r'[A-Z][A-Za-z0-9]*', st) and args and st not in self.layouts.structs and st not in self.layouts.enums:
                    # unresolved generic parameter: dispatch on the runtime type of the receiver
                    a0 = args[0]
                    for _ in range(3):
                        if type(a0) is Ref:
                            a0 = a0.cont[a0.key]
                    if type(a0) is Sc:
                        st = a0.t
                    elif type(a0) is Agg:
                        st = a0.ty.split('@')[0]
                sh = '[]' if st.startswith('[') else type_head(st)
                if st.startswith('{closure@'):
                    return None
                return self.crate.resolve([sh, mname], trait=trait, selfty=sh)
            # <impl ...> paths of std: not ours
            return None
        segs = []
        for s in split_path(callee):
            if s.startswith('<impl ') and ' for ' not in s:
                # inherent impl written in another module:  ffi_serde::<impl interpreter::Value>::to_ffi_value
                segs.append(type_head(strip_ref(s[6:-1].strip())))
                continue
            k = s.find('<')
            segs.append(s[:k] if k >= 0 else s)
        segs = [s for s in segs if s]
        return self.crate.resolve(segs)

    def call_value(self, f, args, fr):
        """call a fn pointer / fn item / closure value with already-evaluated positional args"""
        if type(f) is Ref:
            f = f.cont[f.key]
        if type(f) is FnV:
            return self.call(f.path, args, fr)
        if type(f) is Agg and f.ty.startswith('closure:'):
            span = f.ty[len('closure:'):]
            tgt = self.crate.closure_by_span.get(span)
            if tgt is None:
                raise Unsupported('closure body not found for %s' % span)
            mir, name = tgt
            body = mir.get(name)
            self_ty = body.local_types.get(1, '')
            selfarg = Ref([f], 0) if self_ty.startswith('&') else f
            env = fr.tyenv if fr is not None else None
            if f.fields and type(f.fields[-1]) is TyEnvTag:
                env = f.fields[-1].env
            return self.call_body(mir, name, body, [selfarg] + list(args), env)
        if hasattr(f, 'call'):
            return f.call(self, args, fr)
        raise Unsupported('call of value %r' % (f,))


def _top_as(s):
    depth = 0
    i = 0
    while i < len(s):
        c = s[i]
        if c in '<([{':
            depth += 1
        elif c in ')]}':
            depth -= 1
        elif c == '>' and not (i > 0 and s[i - 1] == '-'):
            depth -= 1
        elif depth == 0 and s.startswith(' as ', i):
            return i
        i += 1
    return -1


def _b2bv(c):
    return z3.If(c, z3.BitVecVal(1, 1), z3.BitVecVal(0, 1))


def _addv(a, b):
    if isinstance(a, int) and isinstance(b, int):
        return a + b
    if isinstance(a, int):
        return z3.BitVecVal(a, b.size()) + b
    if isinstance(b, int):
        return a + z3.BitVecVal(b, a.size())
    return a + b


def _canon(bits):
    return bits


def _fdiv(x, y):
    try:
        return x / y
    except ZeroDivisionError:
        if x != x or x == 0.0:
            return float('nan')
        import math
        neg = (math.copysign(1.0, x) < 0) != (math.copysign(1.0, y) < 0)
        return float('-inf') if neg else float('inf')


def _unescape(s):
    try:
        return bytes(s, 'utf-8').decode('unicode_escape').encode('latin-1').decode('utf-8')
    except Exception:
        return s
