"""Integer (LIA) shadow of bit-vector queries whose terms provably do not wrap.

Linear comparisons such as  a+b <= a+b+c  over 64-bit words are trivial in integer arithmetic but can stall a
bit-blasting back end.  A BV term is translated to an Int term together with a static upper bound derived from the
declared ranges of the variables; the translation is only used when every intermediate sum stays below 2^64 (so the
machine-word semantics and the integer semantics coincide); anything else raises Untranslatable and the caller
falls back to the bit-vector query.
"""
import z3


class Untranslatable(Exception):
    pass


class Lia(object):
    def __init__(self, var_bound=(1 << 32) - 1):
        self.var_bound = var_bound
        self.vars = {}
        self.cache = {}
        self.solver = z3.SolverFor('QF_LIA')
        self.solver.set('timeout', 10000)

    def var(self, name):
        v = self.vars.get(name)
        if v is None:
            v = z3.Int('i_' + name)
            self.vars[name] = v
            self.solver.add(v >= 0, v <= self.var_bound)
        return v

    def term(self, e):
        """BV term -> (Int term, upper bound)"""
        k = e.get_id()
        r = self.cache.get(k)
        if r is not None:
            return r[1]
        r = self._term(e)
        self.cache[k] = (e, r)      # keep e alive: z3 ast ids are reused after garbage collection
        return r

    def _term(self, e):
        if z3.is_bv_value(e):
            v = e.as_long()
            return z3.IntVal(v), v
        if z3.is_const(e) and e.decl().kind() == z3.Z3_OP_UNINTERPRETED:
            return self.var(e.decl().name()), self.var_bound
        kd = e.decl().kind()
        ch = e.children()
        if kd == z3.Z3_OP_BADD:
            ts = [self.term(c) for c in ch]
            ub = sum(t[1] for t in ts)
            if ub >= (1 << e.size()):
                raise Untranslatable('sum may wrap')
            return z3.Sum([t[0] for t in ts]), ub
        if kd == z3.Z3_OP_BMUL:
            consts = [c for c in ch if z3.is_bv_value(c)]
            rest = [c for c in ch if not z3.is_bv_value(c)]
            if len(rest) != 1:
                raise Untranslatable('non-linear product')
            f = 1
            for c in consts:
                f *= c.as_long()
            t, ub = self.term(rest[0])
            if ub * f >= (1 << e.size()):
                raise Untranslatable('product may wrap')
            return t * f, ub * f
        if kd == z3.Z3_OP_ITE:
            c = self.formula(ch[0])
            a, ua = self.term(ch[1])
            b, ub = self.term(ch[2])
            return z3.If(c, a, b), max(ua, ub)
        if kd == z3.Z3_OP_ZERO_EXT:
            return self.term(ch[0])
        if kd == z3.Z3_OP_EXTRACT:
            hi, lo = e.params()
            t, ub = self.term(ch[0])
            if lo == 0 and ub < (1 << (hi + 1)):
                return t, ub
            raise Untranslatable('extract %s' % str(e)[:200].replace('\n', ' '))
        if kd == z3.Z3_OP_CONCAT and len(ch) == 2 and z3.is_bv_value(ch[0]) and ch[0].as_long() == 0:
            return self.term(ch[1])
        raise Untranslatable('bv op %s in %s' % (e.decl().name(), str(e)[:300].replace('\n', ' ')))

    def formula(self, f):
        k = ('f', f.get_id())
        r = self.cache.get(k)
        if r is not None:
            return r[1]
        r = self._formula(f)
        self.cache[k] = (f, r)
        return r

    def _formula(self, f):
        if z3.is_true(f) or z3.is_false(f):
            return f
        kd = f.decl().kind()
        ch = f.children()
        if kd == z3.Z3_OP_AND:
            return z3.And(*[self.formula(c) for c in ch])
        if kd == z3.Z3_OP_OR:
            return z3.Or(*[self.formula(c) for c in ch])
        if kd == z3.Z3_OP_NOT:
            return z3.Not(self.formula(ch[0]))
        if kd == z3.Z3_OP_IMPLIES:
            return z3.Implies(self.formula(ch[0]), self.formula(ch[1]))
        if kd == z3.Z3_OP_ITE and z3.is_bool(f):
            return z3.If(self.formula(ch[0]), self.formula(ch[1]), self.formula(ch[2]))
        if kd in (z3.Z3_OP_EQ, z3.Z3_OP_DISTINCT) and z3.is_bv(ch[0]):
            # single-bit test of a wider sum: the carry-out form that BVAddNoOverflow expands to
            for a_, b_ in ((ch[0], ch[1]), (ch[1], ch[0])):
                if a_.decl().kind() == z3.Z3_OP_EXTRACT and z3.is_bv_value(b_):
                    hi, lo = a_.params()
                    if hi != lo and b_.as_long() == 0:
                        # high bits all zero  <=>  value below 2^lo  (when the value cannot reach bit hi+1)
                        t, ub = self.term(a_.children()[0])
                        if ub < (1 << (hi + 1)):
                            r_ = t < (1 << lo)
                            return r_ if kd == z3.Z3_OP_EQ else z3.Not(r_)
                    if hi == lo:
                        t, ub = self.term(a_.children()[0])
                        if ub < (1 << (hi + 1)):
                            bit_set = t >= (1 << hi)
                            want = b_.as_long() == 1
                            r_ = bit_set if want else z3.Not(bit_set)
                            return r_ if kd == z3.Z3_OP_EQ else z3.Not(r_)
        if kd in (z3.Z3_OP_EQ, z3.Z3_OP_DISTINCT):
            if z3.is_bool(ch[0]):
                a, b = self.formula(ch[0]), self.formula(ch[1])
            elif z3.is_bv(ch[0]):
                a, b = self.term(ch[0])[0], self.term(ch[1])[0]
            else:
                raise Untranslatable('equality sort')
            return (a == b) if kd == z3.Z3_OP_EQ else (a != b)
        if kd in (z3.Z3_OP_ULEQ, z3.Z3_OP_ULT, z3.Z3_OP_UGEQ, z3.Z3_OP_UGT):
            a, b = self.term(ch[0])[0], self.term(ch[1])[0]
            return {z3.Z3_OP_ULEQ: a <= b, z3.Z3_OP_ULT: a < b, z3.Z3_OP_UGEQ: a >= b, z3.Z3_OP_UGT: a > b}[kd]
        if kd == z3.Z3_OP_BUADD_NO_OVFL if hasattr(z3, 'Z3_OP_BUADD_NO_OVFL') else False:
            a, ua = self.term(ch[0])
            b, ub = self.term(ch[1])
            return z3.BoolVal(True) if ua + ub < (1 << ch[0].size()) else (a + b < (1 << ch[0].size()))
        raise Untranslatable('bool op %s' % f.decl().name())

    def check_valid(self, pc, cond):
        """True / False / None(unknown): does (and pc) imply cond?"""
        fs = [self.formula(c) for c in pc]
        g = self.formula(cond)
        self.solver.push()
        try:
            for x in fs:
                self.solver.add(x)
            self.solver.add(z3.Not(g))
            r = self.solver.check()
            if r == z3.unsat:
                return True, None
            if r == z3.sat:
                return False, self.solver.model()
            return None, None
        finally:
            self.solver.pop()
