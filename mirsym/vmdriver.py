"""Driver: builds a `runtime::vm::Machine` value for mirsym from mmdump's program JSON and steps it with the
real `Machine::execute*` MIR.  The driver protocol mirrors ExecContext::run_main + VmDspRuntime::{set_input,run_dsp}.
"""
import re
import z3
from .values import *
from .interp import Unsupported, PanicReached
from .mirparse import split_top
from .models import RcV, RefCellV, some, none
from . import smt as S
from .smt import INT_W, mask

MACHINE_FIELDS = ['prog', 'stack', 'base_pointer', 'closures', 'heap', 'ext_fun_table', 'ext_cls_table', 'arrays',
                  'fn_map', 'global_states', 'states_stack', 'delaysizes_pos_stack', 'global_vals', 'debug_stacktype',
                  'current_ext_call_nargs', 'current_ext_call_idx', 'code_values']
PROGRAM_FIELDS = ['global_fn_table', 'ext_fun_table', 'global_vals', 'strings', 'file_path', 'iochannels', 'dsp_index', 'type_table']
FUNCPROTO_FIELDS = ['nparam', 'nret', 'upindexes', 'bytecodes', 'constants', 'delay_sizes', 'jump_tables', 'state_skeleton']


def check_layout(L):
    """the driver constructs values by field position: make sure the source still declares these fields in this order"""
    m = L.find_struct('Machine')
    p = L.find_struct('Program', hint='vm/program')
    f = L.find_struct('FuncProto')
    errs = []
    if m is None or m.fields != MACHINE_FIELDS:
        errs.append('Machine fields changed: %r' % (m.fields if m else None))
    if p is None or p.fields != PROGRAM_FIELDS:
        errs.append('Program fields changed: %r' % (p.fields if p else None))
    if f is None or f.fields != FUNCPROTO_FIELDS:
        errs.append('FuncProto fields changed: %r' % (f.fields if f else None))
    return errs


def skel_value(it, sk):
    e = it.layouts.find_enum('StateTreeSkeleton')
    tag = it.enum_tag(e)
    k = sk['k']
    if k == 'Delay':
        return Agg(tag, e.variant_index('Delay'), [Sc('u64', sk['len'])])
    if k in ('Mem', 'Feed'):
        return Agg(tag, e.variant_index(k), [Agg('StateType', None, [Sc('u64', sk['size'])])])
    return Agg(tag, e.variant_index('FnCall'), [VecV([BoxV(skel_value(it, c)) for c in sk['children']])])


def skel_total(sk):
    k = sk['k']
    if k == 'Delay':
        return sk['len'] + 2
    if k in ('Mem', 'Feed'):
        return sk['size']
    return sum(skel_total(c) for c in sk['children'])


_instr_re = re.compile(r'^([A-Za-z0-9_]+)(?:\((.*)\))?$', re.S)


def instr_value(it, ins, enum):
    m = _instr_re.match(ins['dbg'])
    name = m.group(1)
    vi = enum.variant_index(name)
    ftys = enum.vtypes[vi]
    raw = split_top(m.group(2)) if m.group(2) else []
    fields = []
    for ty, txt in zip(ftys, raw):
        rt = it.layouts.resolve_alias(ty)
        if rt in INT_W:
            fields.append(Sc(rt, int(txt) & mask(INT_W[rt])))
        elif rt == 'HFloat':
            fields.append(Agg('HFloat', None, [Sc('f64', ins['imm'])]))
        elif 'U24' in rt:
            fields.append(Agg('U24', None, [Sc('u32', ins['imm'])]))
        else:
            raise Unsupported('instruction operand type %s' % rt)
    if len(fields) != len(ftys):
        raise Unsupported('cannot parse instruction %s' % ins['dbg'])
    return Agg(it.enum_tag(enum), vi, fields)


def build_program(it, pj):
    enum = it.layouts.find_enum('Instruction', hint='bytecode')
    fns = []
    for f in pj['fns']:
        proto = Agg('FuncProto', None, [
            Sc('usize', f['nparam']), Sc('usize', f['nret']),
            VecV([Agg('OpenUpValue', None, [Sc('usize', u['pos']), Sc('u16', u['size']), Sc('bool', int(u['is_closure']))]) for u in f['upindexes']]),
            VecV([instr_value(it, b, enum) for b in f['bytecodes']]),
            VecV([Sc('u64', c) for c in f['constants']]),
            VecV([Sc('u64', c) for c in f['delay_sizes']]),
            VecV([Agg('JumpTable', None, [Sc('i64', j['min'] & mask(64)), VecV([Sc('i16', o & 0xffff) for o in j['offsets']])]) for j in f['jump_tables']]),
            skel_value(it, f['state_skeleton']),
        ])
        fns.append(Agg('tuple', None, [StrV(f['name']), proto]))
    io = pj.get('io')
    prog = Agg('Program', None, [
        VecV(fns),
        VecV([Agg('tuple', None, [StrV(e['name']), Opaque('TypeNodeId')]) for e in pj['ext_funs']]),
        VecV([Agg('WordSize', None, [Sc('u64', g)]) for g in pj['global_vals']]),
        VecV([StrV(s) for s in pj['strings']]),
        none(),
        some(Agg('IoChannelInfo', None, [Sc('u32', io['input']), Sc('u32', io['output'])])) if io else none(),
        some(Sc('usize', pj['dsp_index'])) if pj.get('dsp_index') is not None else none(),
        VecV([TypeRef(t) for t in pj['type_table']] if pj.get('type_table') is not None else [Opaque('TypeNodeId') for _ in range(pj.get('type_table_len', 0))]),
    ])
    return prog


class TypeRef(object):
    """a TypeNodeId of the program's type table: the interner lives in the compiler process, so the structure of the type (as
    the real `TypeNodeId::to_type` / `word_size` report it) is dumped by mmdump and looked up here"""
    __slots__ = ('js',)

    def __init__(self, js):
        self.js = js

    def __repr__(self):
        return 'TypeRef(%s)' % self.js.get('k')


def _sym(name):
    import zlib
    return Agg('Symbol', None, [Sc('usize', zlib.crc32(name.encode()) & 0xffffff)])


def type_value(it, js):
    """types::Type value for a dumped type"""
    k = js['k']
    kids = [TypeRef(c) for c in js.get('c', [])]
    if k == 'Primitive':
        pe = it.layouts.find_enum('PType', js['p'])
        return it.make_enum('Type', k, [Agg(it.enum_tag(pe), pe.variant_index(js['p']), [])], hint='types')
    if k in ('Array', 'Ref', 'Code', 'Boxed'):
        return it.make_enum('Type', k, [kids[0]], hint='types')
    if k in ('Tuple', 'Union'):
        return it.make_enum('Type', k, [VecV(kids)], hint='types')
    if k == 'Record':
        fs = [Agg('RecordTypeField', None, [_sym(n), t, Sc('bool', int(d))]) for n, t, d in zip(js['keys'], kids, js['defaults'])]
        return it.make_enum('Type', k, [VecV(fs)], hint='types')
    if k == 'Function':
        return it.make_enum('Type', k, [kids[0], kids[1]], hint='types')
    if k == 'UserSum':
        vs = [Agg('tuple', None, [_sym(v['name']), some(TypeRef(v['payload'])) if v['payload'] is not None else none()]) for v in js['variants']]
        return it.make_enum('Type', k, [_sym(js['name']), VecV(vs)], hint='types')
    if k == 'TypeAlias':
        return it.make_enum('Type', k, [_sym(js['name'])], hint='types')
    if k in ('Any', 'Failure', 'Unknown'):
        return it.make_enum('Type', k, [], hint='types')
    raise Unsupported('type %s in the type table' % k)


def install_type_hooks(it):
    def deref(a):
        while type(a) is Ref:
            a = a.cont[a.key]
        return a

    def to_type(it_, args):
        a = deref(args[0])
        if isinstance(a, TypeRef):
            return type_value(it_, a.js)
        if type(a) is Opaque and a.what == 'TypeNodeId':
            raise Unsupported('TypeNodeId::to_type on a type id that is not in the dumped type table (global interner)')
        return NotImplemented

    def word_size(it_, args):
        a = deref(args[0])
        if isinstance(a, TypeRef):
            return Sc('u16', a.js['word_size'])
        if type(a) is Opaque and a.what == 'TypeNodeId':
            raise Unsupported('word_size on a type id that is not in the dumped type table (global interner)')
        return NotImplemented       # SizedType::word_size of the state tree etc.: run the real body
    it.hooks['to_type'] = to_type
    it.hooks['word_size'] = word_size


class HostFn(object):
    """an external closure implemented by the driver (clock, sample rate, scheduler hooks)"""

    def __init__(self, name, fn):
        self.name = name
        self.fn = fn

    def call(self, it, args, fr):
        return self.fn(it, args, fr)


class VmRun(object):
    """one VM instance inside one path"""

    def __init__(self, it, pj, now_ref=None, samplerate=48000.0, ext_hooks=None):
        self.it = it
        self.pj = pj
        self.now = now_ref if now_ref is not None else [Sc('u64', 0)]
        self.samplerate = samplerate
        self.ext_hooks = ext_hooks or {}
        install_type_hooks(it)
        self.prog = build_program(it, pj)
        self.rt = None                      # VmDspRuntime (mimium-audiodriver), built by run_main from the MIR of VmDspRuntime::new
        self._machine = self.build_machine(self.prog)
        self.workers = []                   # Box<dyn SystemPluginAudioWorker> values handed to the runtime
        self.dsp_i = pj['dsp_index'] if pj.get('dsp_index') is not None else self.fn_index('dsp')
        self.n_in = pj['io']['input'] if pj.get('io') else 0
        self.n_out = pj['io']['output'] if pj.get('io') else 0

    def fn_index(self, name):
        for i, f in enumerate(self.pj['fns']):
            if f['name'] == name:
                return i
        return None

    def ext_closure(self, name):
        it = self.it
        if name in self.ext_hooks:
            return HostFn(name, self.ext_hooks[name])
        if name == '_mimium_getnow':
            def getnow(it, args, fr):
                m = args[0]
                cnt = it.cast(self.now[0], 'f64', 'IntToFloat', fr)
                it.call('Machine::set_stack', [m, Sc('i64', 0), Sc('u64', it.smt.fp_to_bits(cnt.v))], fr)
                return Sc('i64', 1)
            return HostFn(name, getnow)
        if name == '_mimium_getsamplerate':
            def getsr(it, args, fr):
                m = args[0]
                it.call('Machine::set_stack', [m, Sc('i64', 0), Sc('u64', S.f2b(self.samplerate))], fr)
                return Sc('i64', 1)
            return HostFn(name, getsr)
        if '$' in name:
            # arity-specialised array builtins (`split_head$arity2`, ...) are closures built by
            # plugin::builtin_functins::try_make_specialized_extcls: run the factory closure `make_<base>` from MIR with the arity
            cl = self.specialised_ext_closure(name)
            if cl is not None:
                return cl
            raise Unsupported('external function %s (arity-specialised closure)' % name)
        return FnV('plugin::builtin_functins::%s::machine_function' % name)

    def specialised_ext_closure(self, name):
        import re as _re
        it = self.it
        m = _re.fullmatch(r'(\w+)\$arity(\d+)', name)
        if not m:
            return None
        base, arity = m.group(1), int(m.group(2))
        crate = it.crate
        for span, (mir, fname) in crate.closure_by_span.items():
            if not _re.search(r'try_make_specialized_extcls::\{closure#\d+\}$', fname) or 'builtin_functins' not in fname:
                continue
            # span = crates/.../builtin_functins.rs:713:24: 713:42 ; the source line reads `let make_<base> = |elem_size: usize| {`
            sm = _re.match(r'\{closure@(.*?):(\d+):\d+', span)
            if not sm:
                continue
            lines = crate.src_lines(sm.group(1))
            line = lines[int(sm.group(2)) - 1] if int(sm.group(2)) - 1 < len(lines) else ''
            if not _re.search(r'\blet\s+make_%s\b' % _re.escape(base), line):
                continue
            # the factory closure borrows `name` and `ty` of the enclosing function
            factory = Agg('closure:' + span, None, [Ref([Agg('Symbol', None, [Opaque('Symbol:' + name)])], 0), Ref([Agg('TypeNodeId', None, [Opaque('TypeNodeId')])], 0)])
            info = it.call_value(factory, [Sc('usize', arity)], None)
            for f in info.fields:
                if isinstance(f, RcV):
                    inner = f.cell[0]
                    return inner.cell[0] if isinstance(inner, RefCellV) else inner
            return None
        return None

    def build_machine(self, prog):
        it = self.it
        pj = self.pj
        ext_cls = []
        fn_map = MapV('map')
        e_ext = it.layouts.find_enum('ExtFnIdx')
        for i, e in enumerate(pj['ext_funs']):
            cl = self.ext_closure(e['name'])
            ext_cls.append(Agg('tuple', None, [Opaque('Symbol:' + e['name']), RcV(RefCellV(cl))]))
            fn_map.items.append((Sc('usize', i), Agg(it.enum_tag(e_ext), e_ext.variant_index('Cls'), [Sc('usize', i)])))
        gsize = sum(pj['global_vals'])
        e_rvt = it.layouts.find_enum('RawValType')
        m = Agg('Machine', None, [
            prog,
            VecV([]),                              # stack
            Sc('u64', 0),                          # base_pointer
            SlotMapV(),                            # closures
            SlotMapV(),                            # heap
            VecV([]),                              # ext_fun_table
            VecV(ext_cls),                         # ext_cls_table
            Agg('ArrayStorage', None, [SlotMapV()]),
            fn_map,
            Agg('StateStorage', None, [Sc('usize', 0), VecV([])]),
            Agg('StateStorageStack', None, [VecV([])]),
            VecV([Sc('usize', 0)]),                # delaysizes_pos_stack
            VecV([Sc('u64', 0) for _ in range(gsize)]),
            VecV([]),                              # debug_stacktype (unused: set_stacktype has an empty body)
            Sc('u8', 0),
            none(),
            VecV([]),
        ])
        return m

    # -- field access ---------------------------------------------------------------------------
    def field(self, name):
        return self.machine.fields[MACHINE_FIELDS.index(name)]

    def state_words(self):
        return self.field('global_states').fields[1].buf

    def state_pos(self):
        return self.field('global_states').fields[0]

    def stack(self):
        return self.field('stack').buf

    # -- the machine lives inside the VmDspRuntime once that exists (try_hot_swap replaces it there) ------------------
    @property
    def machine(self):
        return self.rt.fields[0] if self.rt is not None else self._machine

    @property
    def mref(self):
        return Ref(self.rt.fields, 0) if self.rt is not None else Ref([self._machine], 0)

    # -- protocol: every step is the MIR of the real driver-facing functions ----------------------------------------
    def run_main(self):
        """ExecContext::run_main -> Machine::execute_main; then RuntimeData::new -> VmDspRuntime::new(vm, plugins)
        (crates/lib/plugins/mimium-audiodriver/src/driver.rs), which zero-fills the input registers"""
        it = self.it
        r = it.call('Machine::execute_main', [self.mref], None)
        s = it.layouts.find_struct('VmDspRuntime')
        if s is None or s.fields[0] != 'vm':
            raise Unsupported('VmDspRuntime changed: %r' % (s.fields if s else None))
        rt = it.call('VmDspRuntime::new', [self._machine, Slice([], 0, 0)], None)
        if self.workers:
            rt.fields[s.fields.index('sys_plugin_workers')] = VecV(list(self.workers))
        self.rt = rt
        self.rtref = Ref([rt], 0)
        return r

    def set_input(self, words):
        """<VmDspRuntime as DspRuntime>::set_input(&[f64])"""
        buf = list(words)        # raw words: the &[f64] -> &[u64] transmute of set_input is the identity on bit patterns
        self.it.call('VmDspRuntime::set_input', [self.rtref, Slice(buf, 0, len(buf))], None)

    def run_dsp(self):
        """<VmDspRuntime as DspRuntime>::run_dsp(Time(now)) then get_output(ochannels), as the drivers do"""
        it = self.it
        rc = it.call('VmDspRuntime::run_dsp', [self.rtref, Agg('Time', None, [self.now[0]])], None)
        outs = []
        if self.n_out > 0:
            s = it.call('VmDspRuntime::get_output', [self.rtref, Sc('usize', self.n_out)], None)
            st, ln = s.start, s.len
            outs = [s.buf[i] for i in range(st, st + ln)]
        return rc, outs

    def try_hot_swap(self, new_prog):
        """<VmDspRuntime as DspRuntime>::try_hot_swap(ProgramPayload::VmProgram(prog))"""
        it = self.it
        e = it.layouts.find_enum('ProgramPayload')
        payload = Agg(it.enum_tag(e), e.variant_index('VmProgram'), [new_prog])
        return it.call('VmDspRuntime::try_hot_swap', [self.rtref, payload], None)
