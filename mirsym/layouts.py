"""Struct / enum declarations read from the Rust sources of the analysed crates.

MIR refers to struct fields by declaration index in projections but by *name* in
aggregate rvalues, and to enum variants by name in downcasts/aggregates but by
discriminant value in switchInt.  The mapping is the declaration order in the
source, read here with a light-weight scanner (no macro expansion: derive-generated
items are not needed).
"""
import os
import re
from .mirparse import split_top, match_close


def strip_comments(src):
    out = []
    i, n = 0, len(src)
    while i < n:
        c = src[i]
        if c == '/' and i + 1 < n and src[i + 1] == '/':
            j = src.find('\n', i)
            if j < 0:
                j = n
            i = j
            continue
        if c == '/' and i + 1 < n and src[i + 1] == '*':
            depth = 1
            j = i + 2
            while j < n and depth:
                if src.startswith('/*', j):
                    depth += 1
                    j += 2
                elif src.startswith('*/', j):
                    depth -= 1
                    j += 2
                else:
                    if src[j] == '\n':
                        out.append('\n')
                    j += 1
            i = j
            continue
        if c == '"':
            j = i + 1
            while j < n and src[j] != '"':
                if src[j] == '\\':
                    j += 1
                j += 1
            out.append('""')
            out.append('\n' * src.count('\n', i, j))
            i = j + 1
            continue
        if c == "'" and i + 2 < n and (src[i + 2] == "'" or (src[i + 1] == '\\' and src.find("'", i + 2, i + 8) > 0)):
            j = src.find("'", i + 2)
            out.append("' '")
            i = j + 1
            continue
        out.append(c)
        i += 1
    return ''.join(out)


class StructDef:
    def __init__(self, name, fields, file, tuple_like, generics):
        self.name, self.fields, self.file, self.tuple_like, self.generics = name, fields, file, tuple_like, generics
        self.ftypes = []

    def index_of(self, fname):
        return self.fields.index(fname)


class EnumDef:
    def __init__(self, name, variants, file, generics):
        # variants: list of (vname, discr, field_names_or_None_for_tuple, nfields)
        self.name, self.variants, self.file, self.generics = name, variants, file, generics
        self.by_name = {v[0]: i for i, v in enumerate(variants)}

    def variant_index(self, vname):
        return self.by_name[vname]


_item_re = re.compile(r'\b(struct|enum)\s+([A-Za-z_][A-Za-z0-9_]*)')


def _skip_ws(s, i):
    n = len(s)
    while i < n and s[i].isspace():
        i += 1
    return i


def _strip_attrs(part):
    part = part.strip()
    while part.startswith('#['):
        end = match_close(part, 1)
        part = part[end + 1:].strip()
    return part


def _strip_vis(part):
    part = part.strip()
    m = re.match(r'pub\s*(\([^)]*\))?\s*', part)
    if m:
        part = part[m.end():]
    return part


_alias_re = re.compile(r'\btype\s+([A-Za-z_][A-Za-z0-9_]*)\s*=\s*([^;]+);')


def scan_source(text, file, structs, enums, aliases=None):
    src = strip_comments(text)
    if aliases is not None:
        for m in _alias_re.finditer(src):
            aliases.setdefault(m.group(1), ' '.join(m.group(2).split()))
    for m in _item_re.finditer(src):
        kind, name = m.group(1), m.group(2)
        i = _skip_ws(src, m.end())
        generics = []
        if i < len(src) and src[i] == '<':
            end = match_close(src, i)
            for g in split_top(src[i + 1:end]):
                g = g.strip()
                if g and not g.startswith("'"):
                    g = g.split(':')[0].strip()
                    if g.startswith('const '):
                        g = g[6:].strip()
                    generics.append(g)
            i = _skip_ws(src, end + 1)
        # optional where clause before body
        if src.startswith('where', i):
            j = i
            while j < len(src) and src[j] not in '{;(':
                j += 1
            i = j
        if i >= len(src):
            continue
        if kind == 'struct':
            if src[i] == '{':
                end = match_close(src, i)
                fields, ftypes = [], []
                for part in split_top(src[i + 1:end]):
                    part = _strip_vis(_strip_attrs(part))
                    if not part:
                        continue
                    fm = re.match(r'(r#)?([A-Za-z_][A-Za-z0-9_]*)\s*:\s*(.*)$', part, re.S)
                    if fm:
                        fields.append(fm.group(2))
                        ftypes.append(' '.join(fm.group(3).split()))
                sd = StructDef(name, fields, file, False, generics)
                sd.ftypes = ftypes
                structs.setdefault(name, []).append(sd)
            elif src[i] == '(':
                end = match_close(src, i)
                parts = [_strip_vis(_strip_attrs(p)) for p in split_top(src[i + 1:end])]
                parts = [p for p in parts if p]
                sd = StructDef(name, list(range(len(parts))), file, True, generics)
                sd.ftypes = [' '.join(p.split()) for p in parts]
                structs.setdefault(name, []).append(sd)
            elif src[i] == ';':
                structs.setdefault(name, []).append(StructDef(name, [], file, True, generics))
        else:
            if src[i] != '{':
                continue
            end = match_close(src, i)
            variants = []
            vtypes = []
            next_discr = 0
            for part in split_top(src[i + 1:end]):
                part = _strip_attrs(part)
                if not part:
                    continue
                vm = re.match(r'([A-Za-z_][A-Za-z0-9_]*)\s*(.*)$', part, re.S)
                vname, rest = vm.group(1), vm.group(2).strip()
                fnames, nfields, ftys = None, 0, []
                if rest.startswith('{'):
                    e2 = match_close(rest, 0)
                    fnames = []
                    for fp in split_top(rest[1:e2]):
                        fp = _strip_vis(_strip_attrs(fp))
                        if fp:
                            fnames.append(fp.split(':')[0].strip())
                            ftys.append(' '.join(fp.split(':', 1)[1].split()))
                    nfields = len(fnames)
                    rest = rest[e2 + 1:].strip()
                elif rest.startswith('('):
                    e2 = match_close(rest, 0)
                    ftys = [' '.join(_strip_vis(_strip_attrs(p)).split()) for p in split_top(rest[1:e2]) if p.strip()]
                    nfields = len(ftys)
                    rest = rest[e2 + 1:].strip()
                if rest.startswith('='):
                    try:
                        next_discr = int(rest[1:].strip().replace('_', ''), 0)
                    except ValueError:
                        pass
                variants.append((vname, next_discr, fnames, nfields))
                vtypes.append(ftys)
                next_discr += 1
            ed = EnumDef(name, variants, file, generics)
            ed.vtypes = vtypes
            enums.setdefault(name, []).append(ed)


class Layouts:
    def __init__(self):
        self.structs = {}
        self.enums = {}
        self.aliases = {}
        # std types used by aggregates
        self.enums['Option'] = [EnumDef('Option', [('None', 0, None, 0), ('Some', 1, None, 1)], '<std>', ['T'])]
        self.enums['Result'] = [EnumDef('Result', [('Ok', 0, None, 1), ('Err', 1, None, 1)], '<std>', ['T', 'E'])]
        self.enums['Ordering'] = [EnumDef('Ordering', [('Less', -1, None, 0), ('Equal', 0, None, 0), ('Greater', 1, None, 0)], '<std>', [])]
        self.enums['ControlFlow'] = [EnumDef('ControlFlow', [('Continue', 0, None, 1), ('Break', 1, None, 1)], '<std>', ['B', 'C'])]
        self.enums['Bound'] = [EnumDef('Bound', [('Included', 0, None, 1), ('Excluded', 1, None, 1), ('Unbounded', 2, None, 0)], '<std>', ['T'])]
        self.enums['Cow'] = [EnumDef('Cow', [('Borrowed', 0, None, 1), ('Owned', 1, None, 1)], '<std>', ['B'])]
        self.structs['Range'] = [StructDef('Range', ['start', 'end'], '<std>', False, ['Idx'])]
        self.structs['RangeInclusive'] = [StructDef('RangeInclusive', ['start', 'end', 'exhausted'], '<std>', False, ['Idx'])]
        self.structs['RangeFrom'] = [StructDef('RangeFrom', ['start'], '<std>', False, ['Idx'])]
        self.structs['RangeTo'] = [StructDef('RangeTo', ['end'], '<std>', False, ['Idx'])]
        self.structs['RangeFull'] = [StructDef('RangeFull', [], '<std>', False, [])]

    def scan_dir(self, root):
        for dp, dn, fns in os.walk(root):
            for fn in fns:
                if fn.endswith('.rs'):
                    p = os.path.join(dp, fn)
                    with open(p, encoding='utf-8', errors='replace') as f:
                        scan_source(f.read(), p, self.structs, self.enums, self.aliases)

    def scan_text(self, text, file='<text>'):
        scan_source(text, file, self.structs, self.enums, self.aliases)

    def find_struct(self, name, field_names=None, hint=None):
        cands = self.structs.get(name, [])
        if field_names is not None:
            fs = set(field_names)
            c2 = [c for c in cands if set(c.fields) == fs] or [c for c in cands if fs <= set(c.fields)]
            cands = c2
        if hint and len(cands) > 1:
            c2 = [c for c in cands if hint in c.file]
            cands = c2 or cands
        return cands[0] if cands else None

    def find_enum(self, name, variant=None, hint=None):
        cands = self.enums.get(name, [])
        if variant is not None:
            cands = [c for c in cands if variant in c.by_name]
        if hint and len(cands) > 1:
            c2 = [c for c in cands if hint in c.file]
            cands = c2 or cands
        return cands[0] if cands else None

    def find_enum_by_variant(self, variant):
        out = []
        for lst in self.enums.values():
            for e in lst:
                if variant in e.by_name:
                    out.append(e)
        return out

    def resolve_alias(self, t):
        seen = 0
        while t in self.aliases and seen < 8:
            t = self.aliases[t]
            seen += 1
        return t
