"""Parser for rustc's `-Zunpretty=mir` text.

The dump is indexed by item header; bodies are parsed on demand.  Nothing here
interprets anything: the result is a small AST (tuples) consumed by interp.py.

AST shapes
  Place   : ('local', n) | ('deref', P) | ('field', P, idx, tystr) | ('downcast', P, name)
            | ('index', P, localn) | ('cindex', P, off, minlen, from_end) | ('subslice', P, a, b, from_end)
  Operand : ('copy', P) | ('move', P) | ('const', text, tystr_or_None)
  Rvalue  : ('use', Op) | ('ref', mutbool, P) | ('rawptr', mutbool, P) | ('binop', name, Op, Op)
            | ('unop', name, Op) | ('cast', Op, tystr, kind) | ('discr', P) | ('len', P)
            | ('tuple', [Op]) | ('array', [Op]) | ('repeat', Op, ntext) | ('adt', path, variant_or_None, [(fname_or_idx, Op)])
            | ('closure', tystr, [(name, Op)]) | ('nullop', name, tystr) | ('shallowbox', Op, ty) | ('copyforderef', P)
  Stmt    : ('assign', P, Rv) | ('setdiscr', P, n) | ('nop',) | ('intrinsic', name, [Op])
  Term    : ('goto', bb) | ('switch', Op, [(val, bb)], otherwise_bb) | ('return',) | ('unreachable',)
            | ('resume',) | ('drop', P, bb) | ('call', destP_or_None, calleetext, [Op], ret_bb_or_None)
            | ('assert', Op, expected_bool, msg, ret_bb)
"""
import re


class ParseError(Exception):
    pass


def split_top(s, sep=','):
    """split s on sep at bracket depth 0 (brackets: () [] {} <>), respecting string/char literals."""
    out, depth, cur, i, n = [], 0, [], 0, len(s)
    while i < n:
        c = s[i]
        if c == '"':
            j = i + 1
            while j < n and s[j] != '"':
                if s[j] == '\\':
                    j += 1
                j += 1
            cur.append(s[i:j + 1])
            i = j + 1
            continue
        if c == '-' and i + 1 < n and s[i + 1] == '>':
            cur.append('->')
            i += 2
            continue
        if c in '([{<':
            depth += 1
        elif c in ')]}>':
            depth -= 1
        if c == sep and depth == 0:
            out.append(''.join(cur).strip())
            cur = []
        else:
            cur.append(c)
        i += 1
    last = ''.join(cur).strip()
    if last or out:
        out.append(last)
    return out


def match_close(s, i):
    """s[i] is an opening bracket; return index of its matching close."""
    pairs = {'(': ')', '[': ']', '{': '}', '<': '>'}
    op = s[i]
    cl = pairs[op]
    depth = 0
    n = len(s)
    j = i
    while j < n:
        c = s[j]
        if c == '"':
            j += 1
            while j < n and s[j] != '"':
                if s[j] == '\\':
                    j += 1
                j += 1
        elif c == '-' and j + 1 < n and s[j + 1] == '>':
            j += 1
        elif c in '([{<':
            depth += 1
        elif c in ')]}>':
            depth -= 1
            if depth == 0:
                if c != cl:
                    raise ParseError('mismatched bracket in %r' % s)
                return j
        j += 1
    raise ParseError('unclosed bracket in %r' % s)


_local_re = re.compile(r'_(\d+)')


def parse_place(s):
    s = s.strip()
    p, rest = _parse_place(s)
    if rest.strip():
        raise ParseError('trailing place text %r in %r' % (rest, s))
    return p


def _parse_place(s):
    """parse a place prefix of s, returning (place, rest)"""
    s = s.lstrip()
    if s.startswith('('):
        end = match_close(s, 0)
        inner = s[1:end]
        rest = s[end + 1:]
        base = _parse_paren_place(inner)
    else:
        m = _local_re.match(s)
        if not m:
            raise ParseError('bad place %r' % s)
        base = ('local', int(m.group(1)))
        rest = s[m.end():]
    # postfix: [..]
    while rest.startswith('['):
        end = match_close(rest, 0)
        inner = rest[1:end].strip()
        rest = rest[end + 1:]
        base = _index_proj(base, inner)
    return base, rest


def _index_proj(base, inner):
    m = _local_re.fullmatch(inner)
    if m:
        return ('index', base, int(m.group(1)))
    m = re.fullmatch(r'(-?)(\d+) of (\d+)', inner)
    if m:
        return ('cindex', base, int(m.group(2)), int(m.group(3)), m.group(1) == '-')
    m = re.fullmatch(r'(\d+):(-?)(\d*)', inner)
    if m:
        return ('subslice', base, int(m.group(1)), int(m.group(3) or 0), m.group(2) == '-')
    m = re.fullmatch(r'(\d+)\.\.(-?)(\d*)', inner)
    if m:
        return ('subslice', base, int(m.group(1)), int(m.group(3) or 0), m.group(2) == '-')
    raise ParseError('bad index projection %r' % inner)


def _parse_paren_place(inner):
    inner = inner.strip()
    if inner.startswith('*'):
        p, rest = _parse_place(inner[1:])
        if rest.strip():
            raise ParseError('deref trailing %r' % rest)
        return ('deref', p)
    # field:  P.N: Type     downcast:  P as Name
    p, rest = _parse_place(inner)
    rest = rest.lstrip()
    if rest.startswith('.'):
        m = re.match(r'\.(\d+)\s*:\s*', rest)
        if not m:
            raise ParseError('bad field proj %r' % rest)
        return ('field', p, int(m.group(1)), rest[m.end():].strip())
    if rest.startswith('as '):
        name = rest[3:].strip()
        m = re.fullmatch(r'variant#(\d+)', name)
        if m:
            return ('downcast', p, int(m.group(1)))
        return ('downcast', p, name)
    if not rest:
        return p
    raise ParseError('bad paren place %r' % inner)


def parse_operand(s):
    s = s.strip()
    if s.startswith('no_retag '):
        s = s[9:].lstrip()
    if s.startswith('copy '):
        return ('copy', parse_place(s[5:]))
    if s.startswith('move '):
        return ('move', parse_place(s[5:]))
    if s.startswith('const '):
        return ('const', s[6:].strip())
    if re.match(r'^[A-Za-z_<]', s) and not re.match(r'^_\d+', s):
        # bare path used as an operand: a fn item / tuple-struct constructor passed by value
        return ('const', s)
    raise ParseError('bad operand %r' % s)


BINOPS = {'Add', 'Sub', 'Mul', 'Div', 'Rem', 'BitXor', 'BitAnd', 'BitOr', 'Shl', 'Shr', 'Eq', 'Lt', 'Le',
          'Ne', 'Ge', 'Gt', 'Cmp', 'Offset', 'AddWithOverflow', 'SubWithOverflow', 'MulWithOverflow',
          'AddUnchecked', 'SubUnchecked', 'MulUnchecked', 'ShlUnchecked', 'ShrUnchecked'}
UNOPS = {'Not', 'Neg', 'PtrMetadata'}
NULLOPS = {'SizeOf', 'AlignOf', 'OffsetOf', 'UbChecks', 'ContractChecks'}


def _is_operand_start(s):
    return s.startswith(('copy ', 'move ', 'const ', 'no_retag '))


def parse_rvalue(s):
    s = s.strip()
    # references
    if s.startswith('&raw '):
        t = s[5:].lstrip()
        mut = t.startswith('mut ')
        t = t[4:] if mut else t[6:]  # 'mut ' / 'const '
        t = t.lstrip()
        if t.startswith('(fake)'):
            t = t[6:].lstrip()
        return ('rawptr', mut, parse_place(t))
    if s.startswith('&'):
        t = s[1:].lstrip()
        for pre in ('fake shallow ', 'fake ', 'two_phase '):
            if t.startswith(pre):
                t = t[len(pre):]
        mut = False
        if t.startswith('mut '):
            mut = True
            t = t[4:]
        if t.startswith("'"):
            # lifetime annotated borrow &'a
            t = t.split(' ', 1)[1]
            if t.startswith('mut '):
                mut = True
                t = t[4:]
        return ('ref', mut, parse_place(t))
    if s.endswith(')') and ' as ' in s:
        # cast:  OP as TYPE (Kind)
        m = re.match(r'^(.*?) as (.*) \(([A-Za-z]+(?:\(.*\))?)\)$', s, re.S)
        if m and _balanced(m.group(1)) and not m.group(1).startswith('<'):
            try:
                op = parse_operand(m.group(1))
                return ('cast', op, m.group(2).strip(), m.group(3))
            except ParseError:
                pass
    if _is_operand_start(s):
        return ('use', parse_operand(s))
    m = re.match(r'^([A-Za-z]+)\((.*)\)$', s)
    if m:
        name, inner = m.group(1), m.group(2)
        if name in BINOPS:
            a, b = split_top(inner)
            return ('binop', name, parse_operand(a), parse_operand(b))
        if name in UNOPS:
            return ('unop', name, parse_operand(inner))
        if name == 'discriminant':
            return ('discr', parse_place(inner))
        if name == 'Len':
            return ('len', parse_place(inner))
        if name in NULLOPS:
            return ('nullop', name, inner)
        if name == 'ShallowInitBox':
            a, b = split_top(inner)
            return ('shallowbox', parse_operand(a), b)
        if name == 'CopyForDeref':
            return ('copyforderef', parse_place(inner))
    if s.startswith('discriminant('):
        return ('discr', parse_place(s[len('discriminant('):-1]))
    if s.startswith('('):
        end = match_close(s, 0)
        if end == len(s) - 1:
            inner = s[1:end].strip()
            if inner == '':
                return ('tuple', [])
            parts = split_top(inner)
            if parts and parts[-1] == '':
                parts = parts[:-1]
            return ('tuple', [parse_operand(p) for p in parts])
    if s.startswith('['):
        end = match_close(s, 0)
        if end == len(s) - 1:
            inner = s[1:end].strip()
            semi = split_top(inner, ';')
            if len(semi) == 2:
                return ('repeat', parse_operand(semi[0]), semi[1].strip())
            if inner == '':
                return ('array', [])
            return ('array', [parse_operand(p) for p in split_top(inner)])
    if s.startswith('{closure@') or s.startswith('{coroutine@') or s.startswith('{async'):
        end = match_close(s, 0)
        ty = s[:end + 1]
        rest = s[end + 1:].strip()
        caps = []
        if rest.startswith('{'):
            inner = rest[1:match_close(rest, 0)].strip()
            if inner:
                for part in split_top(inner):
                    k, v = part.split(':', 1)
                    caps.append((k.strip(), parse_operand(v)))
        return ('closure', ty, caps)
    # ADT aggregate:  Path { f: op, .. } | Path(op, ..) | Path
    return _parse_adt(s)


def _balanced(s):
    d = 0
    for c in s:
        if c in '([{':
            d += 1
        elif c in ')]}':
            d -= 1
            if d < 0:
                return False
    return d == 0


def _parse_adt(s):
    # find the end of the path: first '{' or '(' at angle depth 0 that is preceded by space / ident char
    depth = 0
    i, n = 0, len(s)
    while i < n:
        c = s[i]
        if c == '<':
            depth += 1
        elif c == '>' and not (i > 0 and s[i - 1] == '-'):
            depth -= 1
        elif depth == 0 and c in '{(':
            break
        i += 1
    path = s[:i].strip()
    rest = s[i:].strip()
    fields = []
    if rest.startswith('{'):
        inner = rest[1:match_close(rest, 0)].strip()
        if inner:
            for part in split_top(inner):
                k, v = part.split(':', 1)
                k = k.strip()
                fields.append((int(k) if k.isdigit() else k, parse_operand(v)))
    elif rest.startswith('('):
        inner = rest[1:match_close(rest, 0)].strip()
        if inner:
            for idx, part in enumerate(split_top(inner)):
                fields.append((idx, parse_operand(part)))
    elif rest:
        raise ParseError('bad adt rvalue %r' % s)
    if not re.match(r'^[A-Za-z_<\[&(]', path):
        raise ParseError('unrecognised rvalue %r' % s)
    return ('adt', path, fields)


_bb_re = re.compile(r'bb(\d+)')


def _targets(s):
    """parse '[return: bb1, unwind continue]' / 'bb3' / 'unwind continue' -> dict"""
    s = s.strip()
    d = {}
    if s.startswith('['):
        for part in split_top(s[1:match_close(s, 0)]):
            if ':' in part:
                k, v = part.split(':', 1)
                m = _bb_re.match(v.strip())
                d[k.strip()] = int(m.group(1)) if m else v.strip()
            else:
                d.setdefault('_misc', []).append(part)
    else:
        m = _bb_re.match(s)
        if m:
            d['return'] = int(m.group(1))
    return d


def parse_statement(line):
    """line without trailing ';'. returns ('stmt', S) or ('term', T)"""
    s = line.strip()
    if s.startswith(('StorageLive(', 'StorageDead(', 'Retag(', 'PlaceMention(', 'FakeRead(', 'AscribeUserType(',
                     'Coverage::', 'ConstEvalCounter', 'nop', 'Deinit(', 'BackwardIncompatibleDropHint(')):
        return ('stmt', ('nop',))
    if s.startswith('goto -> '):
        return ('term', ('goto', int(_bb_re.search(s).group(1))))
    if s == 'return':
        return ('term', ('return',))
    if s == 'unreachable':
        return ('term', ('unreachable',))
    if s in ('resume', 'unwind resume', 'abort', 'unwind terminate(cleanup)', 'terminate(cleanup)', 'terminate(abi)') or s.startswith('unwind terminate') or s.startswith('terminate('):
        return ('term', ('resume',))
    if s.startswith('switchInt('):
        end = match_close(s, len('switchInt'))
        op = parse_operand(s[len('switchInt('):end])
        arrow = s[end + 1:].strip()
        assert arrow.startswith('->'), s
        tg = arrow[2:].strip()
        cases, otherwise = [], None
        for part in split_top(tg[1:match_close(tg, 0)]):
            k, v = part.split(':', 1)
            bb = int(_bb_re.match(v.strip()).group(1))
            if k.strip() == 'otherwise':
                otherwise = bb
            else:
                cases.append((int(k.strip()), bb))
        return ('term', ('switch', op, cases, otherwise))
    if s.startswith('drop('):
        end = match_close(s, 4)
        p = parse_place(s[5:end])
        t = _targets(s[end + 1:].strip()[2:])
        return ('term', ('drop', p, t.get('return')))
    if s.startswith('assert('):
        end = match_close(s, 6)
        parts = split_top(s[7:end])
        cond = parts[0].strip()
        expected = True
        if cond.startswith('!'):
            expected = False
            cond = cond[1:]
        t = _targets(s[end + 1:].strip()[2:])
        return ('term', ('assert', parse_operand(cond), expected, parts[1] if len(parts) > 1 else '', t.get('success')))
    if s.startswith('falseEdge') or s.startswith('falseUnwind'):
        m = re.search(r'real: bb(\d+)', s)
        return ('term', ('goto', int(m.group(1))))
    if s.startswith('discriminant('):
        m = re.match(r'^discriminant\((.*)\) = (-?\d+)$', s)
        if m:
            return ('stmt', ('setdiscr', parse_place(m.group(1)), int(m.group(2))))
    if s.startswith('assume('):
        return ('stmt', ('intrinsic', 'assume', [parse_operand(s[7:-1])]))
    if s.startswith('copy_nonoverlapping('):
        inner = s[len('copy_nonoverlapping('):-1]
        ops = []
        for part in split_top(inner):
            k, v = part.split('=', 1)
            ops.append(parse_operand(v))
        return ('stmt', ('intrinsic', 'copy_nonoverlapping', ops))
    # assignment or call.   PLACE = ...
    eq = _find_assign_eq(s)
    if eq < 0:
        # call without destination?  e.g.  `foo(args) -> ...` does not occur; diverging calls still have `_x = `
        raise ParseError('unrecognised statement %r' % s)
    lhs = s[:eq].strip()
    rhs = s[eq + 1:].strip()
    arrow = _find_top_arrow(rhs)
    if arrow >= 0:
        callpart = rhs[:arrow].strip()
        tg = _targets(rhs[arrow + 2:])
        # callee(args): args are in the last top-level (...) group
        if not callpart.endswith(')'):
            raise ParseError('bad call %r' % s)
        # find matching open paren of the final ')'
        j = _find_last_group(callpart)
        callee = callpart[:j].strip()
        inner = callpart[j + 1:-1].strip()
        args = [parse_operand(a) for a in split_top(inner)] if inner else []
        return ('term', ('call', parse_place(lhs), callee, args, tg.get('return')))
    return ('stmt', ('assign', parse_place(lhs), parse_rvalue(rhs)))


def _find_assign_eq(s):
    depth = 0
    for i, c in enumerate(s):
        if c in '([{':
            depth += 1
        elif c in ')]}':
            depth -= 1
        elif c == '=' and depth == 0:
            if i + 1 < len(s) and s[i + 1] == '=':
                continue
            return i
        elif c == '"':
            return -1
    return -1


def _find_top_arrow(s):
    """index of the ' -> ' that separates a call from its targets (depth 0, outside strings), else -1."""
    depth = 0
    i, n = 0, len(s)
    last = -1
    while i < n:
        c = s[i]
        if c == '"':
            i += 1
            while i < n and s[i] != '"':
                if s[i] == '\\':
                    i += 1
                i += 1
        elif c in '([{':
            depth += 1
        elif c in ')]}':
            depth -= 1
        elif c == '-' and i + 1 < n and s[i + 1] == '>' and depth == 0:
            # must be followed by ' [' or ' bb' or ' unwind'
            tail = s[i + 2:].lstrip()
            if tail.startswith('[') or tail.startswith('bb') or tail.startswith('unwind'):
                last = i
        i += 1
    return last


def _find_last_group(s):
    """s ends with ')'. return index of the '(' that opens that final group."""
    depth = 0
    i = len(s) - 1
    in_str = False
    while i >= 0:
        c = s[i]
        if c == '"':
            # skip backwards over string literal
            i -= 1
            while i >= 0 and not (s[i] == '"' and (i == 0 or s[i - 1] != '\\')):
                i -= 1
        elif c in ')]}':
            depth += 1
        elif c in '([{':
            depth -= 1
            if depth == 0:
                return i
        i -= 1
    raise ParseError('no group in %r' % s)


class Body:
    __slots__ = ('name', 'args', 'ret', 'local_types', 'blocks', 'header', 'nargs', 'kind', 'const_value')

    def __init__(self):
        self.blocks = {}
        self.local_types = {}


class MirFile:
    """Index over one MIR dump."""

    hdr_re = re.compile(r'^(fn|const|static mut|static) (.*)$')

    def __init__(self, path):
        self.path = path
        with open(path, encoding='utf-8', errors='replace') as f:
            self.lines = f.read().split('\n')
        self.items = {}        # full name -> (kind, start line idx, end line idx)
        self._parsed = {}
        self._index()

    def _index(self):
        lines = self.lines
        n = len(lines)
        i = 0
        while i < n:
            ln = lines[i]
            if ln and not ln[0].isspace() and (ln.startswith('fn ') or ln.startswith('const ') or ln.startswith('static ')):
                kind = 'fn' if ln.startswith('fn ') else 'const'
                # one-liner const:  const X: T = const ...;
                if not ln.rstrip().endswith('{'):
                    name = self._const_name(ln)
                    self.items.setdefault(name, (kind, i, i))
                    i += 1
                    continue
                j = i + 1
                while j < n and lines[j] != '}':
                    j += 1
                if kind == 'fn':
                    name = self._fn_name(ln)
                else:
                    name = self._const_name(ln)
                # keep first occurrence (duplicates arise for promoteds of different bodies: names are distinct)
                self.items.setdefault(name, (kind, i, j))
                i = j + 1
            else:
                i += 1

    @staticmethod
    def _fn_name(ln):
        s = ln[3:]
        # name extends to the '(' that starts the parameter list: first '(' at depth 0 wrt <> and not inside '<impl at ...>'
        depth = 0
        for k, c in enumerate(s):
            if c == '<':
                depth += 1
            elif c == '>' and not (k > 0 and s[k - 1] == '-'):
                depth -= 1
            elif c == '(' and depth == 0:
                return s[:k]
        raise ParseError('bad fn header %r' % ln)

    @staticmethod
    def _const_name(ln):
        s = ln.split(' ', 1)[1]
        if s.startswith('mut '):
            s = s[4:]
        depth = 0
        for k, c in enumerate(s):
            if c == '<':
                depth += 1
            elif c == '>' and not (k > 0 and s[k - 1] == '-'):
                depth -= 1
            elif c == ':' and depth == 0 and s[k:k + 2] != '::' and (k == 0 or s[k - 1] != ':'):
                return s[:k]
        raise ParseError('bad const header %r' % ln)

    def names(self):
        return self.items.keys()

    def get(self, name):
        if name in self._parsed:
            return self._parsed[name]
        kind, a, b = self.items[name]
        body = self._parse_body(name, kind, a, b)
        self._parsed[name] = body
        return body

    def source_lines(self, name):
        kind, a, b = self.items[name]
        return b - a + 1

    def _parse_body(self, name, kind, a, b):
        lines = self.lines
        body = Body()
        body.name = name
        body.kind = kind
        body.header = lines[a]
        body.const_value = None
        if a == b:
            # one-liner const
            m = re.search(r'= (const .*);$', lines[a])
            body.const_value = parse_operand(m.group(1)) if m else None
            return body
        if kind == 'fn':
            hdr = lines[a][3 + len(name):]
            end = match_close(hdr, 0)
            params = hdr[1:end]
            body.args = []
            for part in split_top(params):
                if not part:
                    continue
                m = re.match(r'_(\d+): (.*)$', part)
                body.args.append(int(m.group(1)))
                body.local_types[int(m.group(1))] = m.group(2).strip()
            retm = re.match(r'\s*->\s*(.*)\s*\{$', hdr[end + 1:])
            body.ret = retm.group(1).strip() if retm else '()'
            body.nargs = len(body.args)
        else:
            body.args = []
            body.nargs = 0
            m = re.match(r'^(?:const|static|static mut) .*?: (.*) = \{$', lines[a])
            body.ret = m.group(1) if m else None
        i = a + 1
        cur = None
        pending = None
        while i < b:
            ln = lines[i].strip()
            i += 1
            if not ln or ln.startswith('debug ') or ln.startswith('scope ') or ln == '}' and cur is None:
                continue
            if ln.startswith('let '):
                m = re.match(r'let (?:mut )?_(\d+): (.*);$', ln)
                if m:
                    body.local_types[int(m.group(1))] = m.group(2)
                continue
            m = re.match(r'^bb(\d+)(?: \(cleanup\))?: \{$', ln)
            if m:
                cur = []
                body.blocks[int(m.group(1))] = cur
                continue
            if ln == '}':
                cur = None
                continue
            if cur is None:
                continue
            # a statement may span lines only for string constants with newlines: join until ';' closes it
            stmt = ln
            while not stmt.endswith(';') and i < b:
                stmt += '\n' + lines[i]
                i += 1
            stmt = stmt[:-1]
            # strip trailing comments
            try:
                cur.append(parse_statement(stmt))
            except ParseError as e:
                cur.append(('stmt', ('unparsed', stmt, str(e))))
            except Exception as e:  # noqa
                cur.append(('stmt', ('unparsed', stmt, repr(e))))
        return body
