"""Solver back end for mirsym/wasmsym: path conditions, obligations, FP bit-pattern bookkeeping, statistics."""
import struct
import time
import z3

INT_W = {'u8': 8, 'u16': 16, 'u32': 32, 'u64': 64, 'u128': 128, 'usize': 64,
         'i8': 8, 'i16': 16, 'i32': 32, 'i64': 64, 'i128': 128, 'isize': 64,
         'bool': 1, 'char': 32}
SIGNED = {'i8', 'i16', 'i32', 'i64', 'i128', 'isize'}
F64 = z3.Float64()
RNE = z3.RNE()
RTZ = z3.RTZ()


def is_sym(v):
    return not isinstance(v, int)


def mask(w):
    return (1 << w) - 1


def to_signed(v, w):
    return v - (1 << w) if v >> (w - 1) else v


def f2b(x):
    return struct.unpack('<Q', struct.pack('<d', x))[0]


def b2f(b):
    return struct.unpack('<d', struct.pack('<Q', b & mask(64)))[0]


class Stats:
    def __init__(self):
        self.queries = 0
        self.sat = 0
        self.unsat = 0
        self.unknown = 0
        self.solver_s = 0.0
        self.paths = 0
        self.stmts = 0
        self.fresh = 0

    def as_dict(self):
        return dict(queries=self.queries, sat=self.sat, unsat=self.unsat, unknown=self.unknown,
                    solver_s=round(self.solver_s, 3), paths=self.paths, mir_statements=self.stmts)


class Smt:
    """One incremental solver.  Path conditions are managed by the explorer via push/pop."""

    def __init__(self, timeout_ms=10000):
        self.s = z3.Solver()
        self.s.set('timeout', timeout_ms)
        self.timeout_ms = timeout_ms
        self.stats = Stats()
        self.fp_of_bits = {}    # id(bv var ast) -> fp expr   (bits var defined as pattern of fp value)
        self.bits_of_fp = {}    # fp ast id -> bv var
        self.pc = []
        self.uf = {}
        self._fpconst = {}
        self.query_log = None   # optional list of smt2 strings
        self._keep = []

    # -- variables ---------------------------------------------------------------------------
    def fresh_bv(self, name, w):
        self.stats.fresh += 1
        return z3.BitVec('%s!%d' % (name, self.stats.fresh), w)

    def named_bv(self, name, w):
        return z3.BitVec(name, w)

    # -- floating point ------------------------------------------------------------------------
    def fp_from_bits(self, b):
        """b: int or BV64 -> fp value (python int bits stay ints)"""
        if isinstance(b, int):
            return b
        if z3.is_fp(b):
            return b            # a word that already carries its float view (element of a transmuted &[f64] / &[u64] slice)
        k = b.get_id()
        e = self.fp_of_bits.get(k)
        if e is not None:
            return e
        e = z3.fpBVToFP(b, F64)
        self._keep.append(b)
        self.fp_of_bits[k] = e
        self.bits_of_fp[e.get_id()] = b
        self._keep.append(e)
        return e

    def fp_to_bits(self, e):
        """fp value (int bits or z3 FP expr) -> bits (int or BV64).  NaN payload is unconstrained."""
        if isinstance(e, int):
            return e
        if z3.is_bv(e):
            return e            # already a bit pattern (see fp_from_bits)
        k = e.get_id()
        b = self.bits_of_fp.get(k)
        if b is not None:
            return b
        b = self.fresh_bv('fb', 64)
        self._keep.append(e)
        self._keep.append(b)
        self.bits_of_fp[k] = b
        self.fp_of_bits[b.get_id()] = e
        self.add(z3.fpBVToFP(b, F64) == e)
        return b

    def fpval(self, bits):
        """concrete bits -> z3 FP numeral (canonical AST so that equal constants are syntactically equal)"""
        c = self._fpconst.get(bits)
        if c is None:
            c = z3.simplify(z3.fpBVToFP(z3.BitVecVal(bits, 64), F64))
            self._fpconst[bits] = c
        return c

    def fp_lift(self, v):
        return self.fpval(v) if isinstance(v, int) else v

    def ufun(self, name, nargs):
        f = self.uf.get(name)
        if f is None:
            f = z3.Function(name, *([F64] * nargs + [F64]))
            self.uf[name] = f
        return f

    # -- path scope ----------------------------------------------------------------------------
    def begin_path(self):
        self.s.push()
        self.fp_of_bits = {}
        self.bits_of_fp = {}
        self._keep = []
        self.pc = []
        self.fmod_apps = []
        self.int_views = {}

    def end_path(self):
        self.s.pop()

    def add(self, c):
        self.pc.append(c)
        self.s.add(c)

    # -- queries -------------------------------------------------------------------------------
    def check(self, *extra):
        t = time.time()
        self.stats.queries += 1
        if self.query_log is not None and len(self.query_log) < 4000:
            try:
                self.s.push()
                for e in extra:
                    self.s.add(e)
                self.query_log.append(self.s.to_smt2())
                self.s.pop()
            except Exception:
                pass
        r = self.s.check(*extra)
        self.last_sat = (r == z3.sat)
        self.stats.solver_s += time.time() - t
        if r == z3.sat:
            self.stats.sat += 1
        elif r == z3.unsat:
            self.stats.unsat += 1
        else:
            self.stats.unknown += 1
        return r

    def model(self):
        return self.s.model()
