"""Solver back end for mirsym/wasmsym: path conditions, obligations, FP bit-pattern bookkeeping, statistics."""
import struct
import time
import z3

INT_W = {'u8': 8, 'u16': 16, 'u32': 32, 'u64': 64, 'u128': 128, 'usize': 64,
         'i8': 8, 'i16': 16, 'i32': 32, 'i64': 64, 'i128': 128, 'isize': 64,
         'bool': 1, 'char': 32}
SIGNED = {'i8', 'i16', 'i32', 'i64', 'i128', 'isize'}
import os
XCHECK_EVERY = int(os.environ.get('VERIF_XCHECK_EVERY', '25') or 0)      # every n-th `unsat` answer is re-decided by two other solvers
XCHECK_MAX = int(os.environ.get('VERIF_XCHECK_MAX', '4'))               # per solver instance (= per analysed program)
XCHECK_TLIMIT_MS = int(os.environ.get('VERIF_XCHECK_TLIMIT_MS', '8000'))
F64 = z3.Float64()
RNE = z3.RNE()
RTZ = z3.RTZ()


def is_sym(v):
    return not isinstance(v, int)


def mask(w):
    return (1 << w) - 1


def to_signed(v, w):
    return v - (1 << w) if v >> (w - 1) else v


def f2b(x):
    return struct.unpack('<Q', struct.pack('<d', x))[0]


def b2f(b):
    return struct.unpack('<d', struct.pack('<Q', b & mask(64)))[0]


class Stats:
    def __init__(self):
        self.queries = 0
        self.sat = 0
        self.unsat = 0
        self.unknown = 0
        self.solver_s = 0.0
        self.paths = 0
        self.stmts = 0
        self.fresh = 0
        self.xcheck = dict(sampled=0, agree=0, other_unknown=0, disagree=0, by_solver={})
        self.xcheck_disagreements = []

    def as_dict(self):
        d = dict(queries=self.queries, sat=self.sat, unsat=self.unsat, unknown=self.unknown,
                 solver_s=round(self.solver_s, 3), paths=self.paths, mir_statements=self.stmts)
        d.update(xcheck_sampled=self.xcheck['sampled'], xcheck_agree=self.xcheck['agree'], xcheck_other_unknown=self.xcheck['other_unknown'],
                 xcheck_disagree=self.xcheck['disagree'])
        return d


class Smt:
    """One incremental solver.  Path conditions are managed by the explorer via push/pop."""

    def __init__(self, timeout_ms=10000):
        self.s = z3.Solver()
        self.s.set('timeout', timeout_ms)
        self.timeout_ms = timeout_ms
        self.stats = Stats()
        self.fp_of_bits = {}    # id(bv var ast) -> fp expr   (bits var defined as pattern of fp value)
        self.bits_of_fp = {}    # fp ast id -> bv var
        self.pc = []
        self.uf = {}
        self._fpconst = {}
        self.query_log = None   # optional list of smt2 strings
        self._keep = []

    # -- variables ---------------------------------------------------------------------------
    def fresh_bv(self, name, w):
        self.stats.fresh += 1
        return z3.BitVec('%s!%d' % (name, self.stats.fresh), w)

    def named_bv(self, name, w):
        return z3.BitVec(name, w)

    # -- floating point ------------------------------------------------------------------------
    def fp_from_bits(self, b):
        """b: int or BV64 -> fp value (python int bits stay ints)"""
        if isinstance(b, int):
            return b
        if z3.is_fp(b):
            return b            # a word that already carries its float view (element of a transmuted &[f64] / &[u64] slice)
        k = b.get_id()
        e = self.fp_of_bits.get(k)
        if e is not None:
            return e
        e = z3.fpBVToFP(b, F64)
        self._keep.append(b)
        self.fp_of_bits[k] = e
        self.bits_of_fp[e.get_id()] = b
        self._keep.append(e)
        return e

    def fp_to_bits(self, e):
        """fp value (int bits or z3 FP expr) -> bits (int or BV64).  NaN payload is unconstrained."""
        if isinstance(e, int):
            return e
        if z3.is_bv(e):
            return e            # already a bit pattern (see fp_from_bits)
        k = e.get_id()
        b = self.bits_of_fp.get(k)
        if b is not None:
            return b
        b = self.fresh_bv('fb', 64)
        self._keep.append(e)
        self._keep.append(b)
        self.bits_of_fp[k] = b
        self.fp_of_bits[b.get_id()] = e
        self.add(z3.fpBVToFP(b, F64) == e)
        return b

    def fpval(self, bits):
        """concrete bits -> z3 FP numeral (canonical AST so that equal constants are syntactically equal)"""
        c = self._fpconst.get(bits)
        if c is None:
            c = z3.simplify(z3.fpBVToFP(z3.BitVecVal(bits, 64), F64))
            self._fpconst[bits] = c
        return c

    def fp_lift(self, v):
        return self.fpval(v) if isinstance(v, int) else v

    def ufun(self, name, nargs):
        f = self.uf.get(name)
        if f is None:
            f = z3.Function(name, *([F64] * nargs + [F64]))
            self.uf[name] = f
        return f

    # -- path scope ----------------------------------------------------------------------------
    def begin_path(self):
        self.s.push()
        self.fp_of_bits = {}
        self.bits_of_fp = {}
        self._keep = []
        self.pc = []
        self.fmod_apps = []
        self.int_views = {}

    def end_path(self):
        self.s.pop()

    def add(self, c):
        self.pc.append(c)
        self.s.add(c)

    # -- queries -------------------------------------------------------------------------------
    def check(self, *extra):
        t = time.time()
        self.stats.queries += 1
        if self.query_log is not None and len(self.query_log) < 4000:
            try:
                self.s.push()
                for e in extra:
                    self.s.add(e)
                self.query_log.append(self.s.to_smt2())
                self.s.pop()
            except Exception:
                pass
        r = self.s.check(*extra)
        self.last_sat = (r == z3.sat)
        self.stats.solver_s += time.time() - t
        if r == z3.unsat and XCHECK_EVERY and self.stats.unsat % XCHECK_EVERY == XCHECK_EVERY - 1 and self.stats.xcheck['sampled'] < XCHECK_MAX:
            self.cross_check(extra)
        if r == z3.sat:
            self.stats.sat += 1
        elif r == z3.unsat:
            self.stats.unsat += 1
        else:
            self.stats.unknown += 1
        return r

    def cross_check(self, extra):
        """second opinion on an `unsat` verdict (the verdicts that are believed without replay): the same query as SMT-LIB2 text is
        handed to cvc5 and to the distribution's z3 4.8.12 binary.  `sat` from either is a disagreement (the check becomes
        inconclusive, exit 2); unknown / timeout / an `(error` line counts as no opinion."""
        import subprocess
        import tempfile
        try:
            self.s.push()
            for e in extra:
                self.s.add(e)
            text = self.s.to_smt2()
            self.s.pop()
        except Exception:
            return
        x = self.stats.xcheck
        x['sampled'] += 1
        verdicts = {}
        with tempfile.NamedTemporaryFile('w', suffix='.smt2', delete=False) as f:
            # z3 prints its internal `bvurem_i` / `bvudiv_i` ... (divisor known to be non-zero): the standard operators for the other solvers
            for op in ('bvurem', 'bvudiv', 'bvsdiv', 'bvsrem', 'bvsmod'):
                text = text.replace('(%s_i ' % op, '(%s ' % op)
            f.write('(set-logic ALL)\n' + text)
            path = f.name
        try:
            for name, cmd in (('cvc5', ['cvc5', '--lang', 'smt2', '--tlimit=%d' % XCHECK_TLIMIT_MS, path]),
                              ('z3-4.8.12', ['/usr/bin/z3', '-T:%d' % max(1, XCHECK_TLIMIT_MS // 1000), path])):
                try:
                    r = subprocess.run(cmd, capture_output=True, text=True, timeout=XCHECK_TLIMIT_MS / 1000.0 + 5)
                    out = r.stdout.strip().split('\n')
                    v = 'unknown'
                    if '(error' in r.stdout or '(error' in r.stderr:
                        v = 'error'
                    elif out and out[0].strip() in ('sat', 'unsat'):
                        v = out[0].strip()
                except Exception:
                    v = 'timeout'
                verdicts[name] = v
                x['by_solver'].setdefault(name, {}).setdefault(v, 0)
                x['by_solver'][name][v] += 1
        finally:
            import os
            keep = any(v == 'sat' for v in verdicts.values())
            if not keep:
                os.unlink(path)
        if any(v == 'sat' for v in verdicts.values()):
            x['disagree'] += 1
            self.stats.xcheck_disagreements.append(dict(file=path, verdicts=verdicts))
        elif any(v == 'unsat' for v in verdicts.values()):
            x['agree'] += 1
        else:
            x['other_unknown'] += 1

    def model(self):
        return self.s.model()
