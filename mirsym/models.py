"""Models ("stubs") of std / third-party callees.  Every model used in a run is listed in the evidence.

Each model is a python function (interp, args, frame, callee_text) -> value.
Keys: generic-stripped callee path, or ('<Self as Trait>', method) for trait-qualified calls.
"""
import math
import re
import z3
from .values import *
from .interp import (Unsupported, PanicReached, PathInfeasible, strip_generics, split_path, last_generics,
                     type_head, strip_ref, _b2bv, _addv, _top_as)
from .mirparse import match_close, split_top
from . import smt as S
from .smt import INT_W, SIGNED, mask, to_signed

MODELS = {}
TRAIT_MODELS = {}


def model(*names):
    def deco(f):
        for n in names:
            MODELS[n] = f
        return f
    return deco


def tmodel(selfhead, trait, method):
    def deco(f):
        TRAIT_MODELS[(selfhead, trait, method)] = f
        return f
    return deco


def some(v):
    return Agg('Option', 1, [v])


def none():
    return Agg('Option', 0, [])


def ok(v):
    return Agg('Result', 0, [v])


def err(v):
    return Agg('Result', 1, [v])


def sc_usize(v):
    return Sc('usize', v)


def deref_vec(x):
    """&Vec / &mut Vec / Vec -> VecV"""
    while type(x) is Ref:
        x = x.cont[x.key]
    if type(x) is VecV:
        return x
    raise Unsupported('expected Vec, got %r' % (x,))


def as_slice(x):
    """&[T] / &Vec<T> / &[T;N] -> Slice"""
    if type(x) is Slice:
        return x
    if type(x) is Ref:
        t = x.cont[x.key]
        if type(t) is VecV:
            return Slice(t.buf, 0, len(t.buf))
        if type(t) is Agg and t.ty == 'array':
            return Slice(t.fields, 0, len(t.fields))
        if type(t) is Slice:
            return t
    if type(x) is VecV:
        return Slice(x.buf, 0, len(x.buf))
    raise Unsupported('expected slice, got %r' % (x,))


def slice_items(it, s):
    ln = it.concretize(Sc('usize', s.len), 'slice length')
    if not isinstance(s.start, int):
        st0 = z3.simplify(s.start)
        if not z3.is_bv_value(st0):
            # symbolic start inside a concrete buffer: element i is buf[start+i] (ITE over the buffer)
            it.require(z3.ULE(st0, z3.BitVecVal(len(s.buf) - ln, 64)) if len(s.buf) >= ln else z3.BoolVal(False),
                       'slice with symbolic start exceeds its allocation of %d elements' % len(s.buf), 'oob')
            return [it.load_sym(s.buf, st0 + i) for i in range(ln)]
    st = it.concretize(Sc('usize', s.start), 'slice start')
    if st + ln > len(s.buf):
        raise PanicReached('slice [%d..%d] beyond its allocation of %d elements' % (st, st + ln, len(s.buf)), 'oob')
    return s.buf[st:st + ln]


class Models:
    def __init__(self):
        self.used = {}
        self.extra = {}          # callee key -> python fn, installed by drivers
        self.fmod_mode = 'uf'

    def note(self, key):
        self.used[key] = self.used.get(key, 0) + 1

    def dispatch(self, it, callee, args, fr):
        if callee.startswith('<'):
            end = match_close(callee, 0)
            inner = callee[1:end]
            k = _top_as(inner)
            rest = callee[end + 1:]
            if k >= 0 and rest.startswith('::'):
                selft = it.subst(inner[:k].strip(), fr)
                trait_full = inner[k + 4:].strip()
                trait = type_head(trait_full)
                method = split_path(strip_generics(rest[2:]))[-1]
                st = strip_ref(selft)
                sh = '[]' if st.startswith('[') else ('closure' if st.startswith('{closure@') else type_head(st))
                for key in ((sh, trait, method), ('*', trait, method)):
                    f = TRAIT_MODELS.get(key)
                    if f is not None:
                        r = f(it, args, fr, callee)
                        if r is not NotImplemented:
                            self.note('<%s as %s>::%s' % key)
                            return r
                return NotImplemented
            key = strip_generics(callee)
        else:
            key = strip_generics(callee)
        f = self.extra.get(key) or MODELS.get(key)
        if f is None:
            # try the last two segments (e.g. std::vec::Vec::len -> Vec::len)
            segs = key.split('::')
            if len(segs) > 2:
                f = self.extra.get('::'.join(segs[-2:])) or MODELS.get('::'.join(segs[-2:]))
                if f is not None:
                    key = '::'.join(segs[-2:])
        if f is None:
            return NotImplemented
        r = f(it, args, fr, callee)
        if r is not NotImplemented:
            self.note(key)
        return r

    # ---- float remainder (Rust `%` on f64 == C fmod): no back end decides it exactly --------------
    def fmod(self, it, X, Y):
        f = it.smt.ufun('fmod', 2)
        r = f(X, Y)
        smt = it.smt
        apps = getattr(smt, 'fmod_apps', None)
        if apps is None:
            apps = smt.fmod_apps = []
        # the argument region in which the axioms below pin the result down exactly
        apps.append(z3.Or(z3.fpIsNaN(X), z3.fpIsNaN(Y), z3.fpIsInf(X), z3.fpIsZero(Y), z3.fpIsInf(Y), z3.fpLT(z3.fpAbs(X), z3.fpAbs(Y))))
        # exact special-case axioms (IEEE 754 / C99 fmod)
        smt.add(z3.Implies(z3.Or(z3.fpIsNaN(X), z3.fpIsNaN(Y), z3.fpIsInf(X), z3.fpIsZero(Y)), z3.fpIsNaN(r)))
        fin = z3.And(z3.Not(z3.fpIsNaN(X)), z3.Not(z3.fpIsNaN(Y)), z3.Not(z3.fpIsInf(X)), z3.Not(z3.fpIsZero(Y)))
        smt.add(z3.Implies(z3.And(fin, z3.fpIsInf(Y)), r == X))
        smt.add(z3.Implies(z3.And(fin, z3.fpLT(z3.fpAbs(X), z3.fpAbs(Y))), r == X))
        smt.add(z3.Implies(fin, z3.And(z3.Not(z3.fpIsNaN(r)), z3.fpLT(z3.fpAbs(r), z3.fpAbs(Y)),
                                       z3.fpLEQ(z3.fpAbs(r), z3.fpAbs(X)),
                                       z3.Or(z3.fpIsZero(r), z3.fpIsNegative(r) == z3.fpIsNegative(X)),
                                       z3.Implies(z3.fpIsZero(r), z3.fpIsNegative(r) == z3.fpIsNegative(X)))))
        return r


# =================================================================================================
# panics
# =================================================================================================
def _panic_msg(args):
    for a in args:
        if type(a) is StrV:
            return a.s
    return ''


@model('panic', 'core::panicking::panic', 'std::rt::begin_panic', 'core::panicking::panic_explicit',
       'core::panicking::panic_nounwind', 'core::panicking::unreachable_display')
def m_panic(it, args, fr, callee):
    raise PanicReached('panic: ' + _panic_msg(args), 'panic')


@model('panic_fmt', 'core::panicking::panic_fmt', 'std::rt::panic_fmt', 'core::panicking::panic_display',
       'core::panicking::assert_failed', 'assert_failed', 'core::panicking::assert_failed_inner',
       'core::panicking::panic_bounds_check', 'core::option::unwrap_failed', 'core::option::expect_failed',
       'core::result::unwrap_failed', 'unwrap_failed', 'expect_failed', 'core::slice::index::slice_index_fail',
       'core::panicking::panic_const::panic_const_div_by_zero', 'slice_index_order_fail', 'slice_end_index_len_fail',
       'slice_start_index_len_fail', 'core::panicking::panic_cannot_unwind', 'core::cell::panic_already_borrowed',
       'core::cell::panic_already_mutably_borrowed', 'handle_alloc_error', 'capacity_overflow')
def m_panic_fmt(it, args, fr, callee):
    where = fr.name if fr is not None else ''
    raise PanicReached('panic in %s (%s)' % (split_path(where)[-1], strip_generics(callee).split('::')[-1]), 'panic')


# formatting: empty bodies -------------------------------------------------------------------------
@model('Arguments::new_const', 'Arguments::new_v1', 'Arguments::new_v1_formatted', 'core::fmt::rt::Argument::new_display',
       'core::fmt::rt::Argument::new_debug', 'Argument::new_display', 'Argument::new_debug', 'Arguments::new',
       'core::fmt::rt::Argument::new_lower_exp', 'Argument::new_lower_hex', 'Arguments::from_str', 'Arguments::from_str_nonconst')
def m_fmt_args(it, args, fr, callee):
    return Opaque('fmt::Arguments')


@model('format', 'std::fmt::format', 'alloc::fmt::format', 'format::format_inner')
def m_format(it, args, fr, callee):
    return Opaque('String')


@model('log::__private_api::log', 'log::__private_api::log_impl', '__private_api::log', 'log::__private_api::loc',
       '__private_api::loc', 'std::io::_eprint', 'std::io::_print', '_eprint', '_print')
def m_log(it, args, fr, callee):
    return UNIT


@model('log::max_level', 'max_level')
def m_log_max_level(it, args, fr, callee):
    return Agg('LevelFilter', 0, [])


@model('log::__private_api::enabled', '__private_api::enabled')
def m_log_enabled(it, args, fr, callee):
    return Sc('bool', 0)


@tmodel('LevelFilter', 'PartialOrd', 'le')
@tmodel('Level', 'PartialOrd', 'le')
@tmodel('Level', 'PartialOrd', 'lt')
def m_level_le(it, args, fr, callee):
    return Sc('bool', 0)     # logging is off: `lvl <= STATIC_MAX_LEVEL` is false


# =================================================================================================
# f64
# =================================================================================================
@model('core::f64::from_bits', 'f64::from_bits')
def m_from_bits(it, args, fr, callee):
    return Sc('f64', it.smt.fp_from_bits(args[0].v))


@model('core::f64::to_bits', 'f64::to_bits')
def m_to_bits(it, args, fr, callee):
    return Sc('u64', it.smt.fp_to_bits(args[0].v))


import ctypes
import ctypes.util
_libm = ctypes.CDLL(ctypes.util.find_library('m') or 'libm.so.6')


def _libm1(fname):
    f = getattr(_libm, fname)
    f.restype = ctypes.c_double
    f.argtypes = [ctypes.c_double]
    return lambda x: f(x)


def _libm2(fname):
    f = getattr(_libm, fname)
    f.restype = ctypes.c_double
    f.argtypes = [ctypes.c_double, ctypes.c_double]
    return lambda x, y: f(x, y)


def _f1(name, conc, sym):
    def f(it, args, fr, callee):
        x = args[0].v
        if isinstance(x, int):
            fx = S.b2f(x)
            try:
                r = conc(fx)
            except OverflowError:
                r = math.copysign(float('inf'), fx) if name == 'sinh' else float('inf')
            except ValueError:
                r = float('nan')
            return Sc('f64', S.f2b(r))
        return Sc('f64', sym(it, x))
    return f


def _uf1(name):
    return lambda it, x: it.smt.ufun('f64_' + name, 1)(x)


def _pyfloor(x):
    return float(math.floor(x)) if math.isfinite(x) else x


def _pyceil(x):
    return float(math.ceil(x)) if math.isfinite(x) else x


def _pytrunc(x):
    return float(math.trunc(x)) if math.isfinite(x) else x


def _pyround(x):
    if not math.isfinite(x):
        return x
    r = math.floor(abs(x) + 0.5)
    return math.copysign(r, x)


def _neg0(f):
    # keep the sign of zero results like libm (floor(-0.5) = -1 ok; trunc(-0.5) = -0.0)
    def g(x):
        r = f(x)
        if r == 0.0:
            return math.copysign(0.0, x)
        return r
    return g


for _n, _c, _s in [
    ('abs', abs, lambda it, x: z3.fpAbs(x)),
    ('sqrt', lambda x: math.sqrt(x) if x >= 0 else float('nan'), lambda it, x: z3.fpSqrt(S.RNE, x)),
    ('floor', _neg0(_pyfloor), lambda it, x: z3.fpRoundToIntegral(z3.RTN(), x)),
    ('ceil', _neg0(_pyceil), lambda it, x: z3.fpRoundToIntegral(z3.RTP(), x)),
    ('trunc', _neg0(_pytrunc), lambda it, x: z3.fpRoundToIntegral(z3.RTZ(), x)),
    ('round', _neg0(_pyround), lambda it, x: z3.fpRoundToIntegral(z3.RNA(), x)),
    ('sin', _libm1('sin'), _uf1('sin')), ('cos', _libm1('cos'), _uf1('cos')), ('tan', _libm1('tan'), _uf1('tan')),
    ('asin', _libm1('asin'), _uf1('asin')), ('acos', _libm1('acos'), _uf1('acos')), ('atan', _libm1('atan'), _uf1('atan')),
    ('sinh', _libm1('sinh'), _uf1('sinh')), ('cosh', _libm1('cosh'), _uf1('cosh')), ('tanh', _libm1('tanh'), _uf1('tanh')),
    ('ln', _libm1('log'), _uf1('ln')),
    ('exp', _libm1('exp'), _uf1('exp')), ('log10', _libm1('log10'), _uf1('log10')), ('log2', _libm1('log2'), _uf1('log2')),
]:
    MODELS['std::f64::' + _n] = MODELS['core::f64::' + _n] = MODELS['f64::' + _n] = _f1(_n, _c, _s)


def _f2uf(name, conc):
    def f(it, args, fr, callee):
        x, y = args[0].v, args[1].v
        if isinstance(x, int) and isinstance(y, int):
            try:
                r = conc(S.b2f(x), S.b2f(y))
            except (ValueError, OverflowError, ZeroDivisionError):
                r = float('nan')
            return Sc('f64', S.f2b(r))
        return Sc('f64', it.smt.ufun('f64_' + name, 2)(it.smt.fp_lift(x), it.smt.fp_lift(y)))
    return f


def _pypow(x, y):
    try:
        return math.pow(x, y)
    except OverflowError:
        return float('inf')
    except ValueError:
        return float('nan')


for _n, _c in [('powf', _libm2('pow')), ('atan2', _libm2('atan2')), ('hypot', _libm2('hypot'))]:
    MODELS['std::f64::' + _n] = MODELS['core::f64::' + _n] = MODELS['f64::' + _n] = _f2uf(_n, _c)


@model('std::f64::powi', 'core::f64::powi', 'f64::powi')
def m_powi(it, args, fr, callee):
    raise Unsupported('f64::powi')


def _fminmax(is_min):
    """Rust f64::min/max (IEEE minNum/maxNum).  For equal operands (incl. +0 / -0, whose order std leaves unspecified) the
    x86-64 code rustc emits returns the FIRST operand; measured on the real build and validated by the concrete self test."""
    def f(it, args, fr, callee):
        x, y = args[0].v, args[1].v
        if isinstance(x, int) and isinstance(y, int):
            fx, fy = S.b2f(x), S.b2f(y)
            if fx != fx:
                return Sc('f64', y)
            if fy != fy:
                return Sc('f64', x)
            if is_min:
                return Sc('f64', y if fy < fx else x)
            return Sc('f64', y if fy > fx else x)
        X, Y = it.smt.fp_lift(x), it.smt.fp_lift(y)
        if is_min:
            r = z3.If(z3.fpIsNaN(X), Y, z3.If(z3.fpIsNaN(Y), X, z3.If(z3.fpLT(Y, X), Y, X)))
        else:
            r = z3.If(z3.fpIsNaN(X), Y, z3.If(z3.fpIsNaN(Y), X, z3.If(z3.fpGT(Y, X), Y, X)))
        return Sc('f64', r)
    return f


MODELS['core::f64::min'] = MODELS['f64::min'] = MODELS['std::f64::min'] = _fminmax(True)
MODELS['core::f64::max'] = MODELS['f64::max'] = MODELS['std::f64::max'] = _fminmax(False)


@model('core::f64::clamp', 'f64::clamp')
def m_clamp(it, args, fr, callee):
    x, lo, hi = args[0].v, args[1].v, args[2].v
    # std asserts min <= max (panics otherwise, also for NaN bounds)
    if isinstance(lo, int) and isinstance(hi, int):
        if not (S.b2f(lo) <= S.b2f(hi)):
            raise PanicReached('f64::clamp: min > max or NaN bound', 'panic')
    else:
        it.require(z3.fpLEQ(it.smt.fp_lift(lo), it.smt.fp_lift(hi)), 'f64::clamp: min > max or NaN bound', 'panic')
    if isinstance(x, int) and isinstance(lo, int) and isinstance(hi, int):
        fx = S.b2f(x)
        if fx < S.b2f(lo):
            return Sc('f64', lo)
        if fx > S.b2f(hi):
            return Sc('f64', hi)
        return Sc('f64', x)
    X, L, H = it.smt.fp_lift(x), it.smt.fp_lift(lo), it.smt.fp_lift(hi)
    return Sc('f64', z3.If(z3.fpLT(X, L), L, z3.If(z3.fpGT(X, H), H, X)))


@model('core::f64::is_nan', 'f64::is_nan')
def m_is_nan(it, args, fr, callee):
    x = args[0].v
    if isinstance(x, int):
        f = S.b2f(x)
        return Sc('bool', int(f != f))
    return Sc('bool', _b2bv(z3.fpIsNaN(x)))


@model('core::f64::is_finite', 'f64::is_finite')
def m_is_finite(it, args, fr, callee):
    x = args[0].v
    if isinstance(x, int):
        return Sc('bool', int(math.isfinite(S.b2f(x))))
    return Sc('bool', _b2bv(z3.And(z3.Not(z3.fpIsNaN(x)), z3.Not(z3.fpIsInf(x)))))


@model('core::f64::is_infinite', 'f64::is_infinite')
def m_is_inf(it, args, fr, callee):
    x = args[0].v
    if isinstance(x, int):
        return Sc('bool', int(math.isinf(S.b2f(x))))
    return Sc('bool', _b2bv(z3.fpIsInf(x)))


@tmodel('f64', 'PartialOrd', 'partial_cmp')
def m_f64_partial_cmp(it, args, fr, callee):
    a = args[0].cont[args[0].key]
    b = args[1].cont[args[1].key]
    lt = it.fbinop('Lt', a, b)
    if it.truth(lt):
        return some(Agg('Ordering', 0, []))
    if it.truth(it.fbinop('Eq', a, b)):
        return some(Agg('Ordering', 1, []))
    if it.truth(it.fbinop('Gt', a, b)):
        return some(Agg('Ordering', 2, []))
    return none()


# =================================================================================================
# integer helpers
# =================================================================================================
def _int_method(name):
    def deco(f):
        for t in INT_W:
            if t in ('bool', 'char'):
                continue
            MODELS['core::num::' + name] = f
            MODELS['%s::%s' % (t, name)] = f
        return f
    return deco


@_int_method('saturating_sub')
def m_sat_sub(it, args, fr, callee):
    a, b = args
    t = a.t
    w = INT_W[t]
    if t in SIGNED:
        raise Unsupported('signed saturating_sub')
    if isinstance(a.v, int) and isinstance(b.v, int):
        return Sc(t, max(0, a.v - b.v))
    A, B = it.bv(a), it.bv(b)
    return Sc(t, z3.If(z3.ULT(A, B), z3.BitVecVal(0, w), A - B))


@_int_method('saturating_add')
def m_sat_add(it, args, fr, callee):
    a, b = args
    t = a.t
    w = INT_W[t]
    if t in SIGNED:
        raise Unsupported('signed saturating_add')
    if isinstance(a.v, int) and isinstance(b.v, int):
        return Sc(t, min(mask(w), a.v + b.v))
    A, B = it.bv(a), it.bv(b)
    r = A + B
    return Sc(t, z3.If(z3.ULT(r, A), z3.BitVecVal(mask(w), w), r))


@_int_method('wrapping_add')
def m_wrap_add(it, args, fr, callee):
    return it.binop('AddUnchecked', args[0], args[1])


@_int_method('wrapping_sub')
def m_wrap_sub(it, args, fr, callee):
    return it.binop('SubUnchecked', args[0], args[1])


@_int_method('wrapping_mul')
def m_wrap_mul(it, args, fr, callee):
    return it.binop('MulUnchecked', args[0], args[1])


@_int_method('checked_add')
def m_checked_add(it, args, fr, callee):
    r = it.binop('AddWithOverflow', args[0], args[1])
    if it.truth(r.fields[1]):
        return none()
    return some(r.fields[0])


@_int_method('checked_sub')
def m_checked_sub(it, args, fr, callee):
    r = it.binop('SubWithOverflow', args[0], args[1])
    if it.truth(r.fields[1]):
        return none()
    return some(r.fields[0])


@_int_method('checked_mul')
def m_checked_mul(it, args, fr, callee):
    r = it.binop('MulWithOverflow', args[0], args[1])
    if it.truth(r.fields[1]):
        return none()
    return some(r.fields[0])


@_int_method('unsigned_abs')
def m_unsigned_abs(it, args, fr, callee):
    a = args[0]
    w = INT_W[a.t]
    ut = 'u' + a.t[1:]
    if isinstance(a.v, int):
        return Sc(ut, abs(to_signed(a.v, w)) & mask(w))
    return Sc(ut, z3.If(a.v < 0, -a.v, a.v))


@_int_method('abs')
def m_int_abs(it, args, fr, callee):
    a = args[0]
    w = INT_W[a.t]
    if isinstance(a.v, int):
        s = to_signed(a.v, w)
        if s == -(1 << (w - 1)):
            raise PanicReached('attempt to negate with overflow (abs)', 'assert')
        return Sc(a.t, abs(s))
    it.require(a.v != z3.BitVecVal(1 << (w - 1), w), 'attempt to negate with overflow (abs)', 'assert')
    return Sc(a.t, z3.If(a.v < 0, -a.v, a.v))


@_int_method('pow')
def m_int_pow(it, args, fr, callee):
    raise Unsupported('integer pow')


def _ord_val(it, a, b, signed_t=None):
    return it.binop('Cmp', a, b)


@tmodel('*', 'Ord', 'cmp')
def m_ord_cmp(it, args, fr, callee):
    a = args[0].cont[args[0].key] if type(args[0]) is Ref else args[0]
    b = args[1].cont[args[1].key] if type(args[1]) is Ref else args[1]
    if type(a) is Sc and type(b) is Sc and a.t in INT_W:
        return it.binop('Cmp', a, b)
    return NotImplemented


@tmodel('*', 'Ord', 'clamp')
def m_ord_clamp(it, args, fr, callee):
    x, lo, hi = args
    if type(x) is not Sc or x.t not in INT_W:
        return NotImplemented
    if it.truth(it.binop('Gt', lo, hi)):
        raise PanicReached('Ord::clamp: min > max', 'assert')
    if it.truth(it.binop('Lt', x, lo)):
        return lo
    if it.truth(it.binop('Gt', x, hi)):
        return hi
    return x


@tmodel('*', 'Ord', 'min')
def m_ord_min(it, args, fr, callee):
    a, b = args
    if type(a) is not Sc:
        return NotImplemented
    return b if it.truth(it.binop('Lt', b, a)) else a


@tmodel('*', 'Ord', 'max')
def m_ord_max(it, args, fr, callee):
    a, b = args
    if type(a) is not Sc:
        return NotImplemented
    return a if it.truth(it.binop('Gt', a, b)) else b


@model('std::cmp::min', 'core::cmp::min', 'min')
def m_cmp_min(it, args, fr, callee):
    return m_ord_min(it, args, fr, callee)


@model('std::cmp::max', 'core::cmp::max', 'max')
def m_cmp_max(it, args, fr, callee):
    return m_ord_max(it, args, fr, callee)


@tmodel('*', 'From', 'from')
@tmodel('*', 'Into', 'into')
def m_from(it, args, fr, callee):
    a = args[0]
    end = match_close(callee, 0)
    inner = callee[1:end]
    k = _top_as(inner)
    selft = it.subst(inner[:k].strip(), fr)
    trait = inner[k + 4:].strip()
    targ = last_generics(trait)
    if type_head(trait) == 'From':
        dst, src = selft, (it.subst(targ[0], fr) if targ else None)
    else:
        dst, src = (it.subst(targ[0], fr) if targ else None), selft
    if type(a) is Sc and a.t in INT_W and dst in INT_W:
        return it.int_to_int(a, dst)
    if dst == src:
        return a
    if type(a) is Sc and dst == 'f64' and a.t in INT_W:
        return it.cast(a, 'f64', 'IntToFloat', fr)
    if src is not None and 'U24' in src and dst == 'u64':
        return _u24_to_u64(it, a)
    if type_head(trait) == 'Into' and dst is not None:
        # blanket impl<T, U: From<T>> Into<U> for T
        return it.call('<%s as From<%s>>::from' % (dst, selft), args, fr)
    return NotImplemented


def _u24_to_u64(it, a):
    # intx::U24 is modelled as a newtype around a u32 scalar holding the 24-bit value
    if type(a) is Agg:
        a = a.fields[0]
    return it.int_to_int(a, 'u64')


@tmodel('*', 'TryFrom', 'try_from')
def m_try_from(it, args, fr, callee):
    a = args[0]
    end = match_close(callee, 0)
    inner = callee[1:end]
    k = _top_as(inner)
    dst = it.subst(inner[:k].strip(), fr)
    if type(a) is Sc and a.t in INT_W and dst in INT_W:
        ws, wd = INT_W[a.t], INT_W[dst]
        ssrc, sdst = a.t in SIGNED, dst in SIGNED
        if isinstance(a.v, int):
            x = to_signed(a.v, ws) if ssrc else a.v
            lo = -(1 << (wd - 1)) if sdst else 0
            hi = (1 << (wd - 1)) - 1 if sdst else mask(wd)
            if lo <= x <= hi:
                return ok(Sc(dst, x & mask(wd)))
            return err(Opaque('TryFromIntError'))
        conv = it.int_to_int(a, dst)
        back = it.int_to_int(conv, a.t)
        fits = back.v == a.v
        if ssrc != sdst:
            # sign must be non-negative on both views
            fits = z3.And(fits, (a.v >= 0) if ssrc else (conv.v >= 0))
        if it.branch(fits):
            return ok(conv)
        return err(Opaque('TryFromIntError'))
    return NotImplemented


# =================================================================================================
# mem / ptr
# =================================================================================================
def _deref_arg(x):
    if type(x) is Ref:
        x = x.cont[x.key]
        # &&T (comparison operators on references)
        while type(x) is Ref and type(x.cont[x.key]) in (VecV, BoxV, Agg, Ref):
            x = x.cont[x.key]
        return x
    return x


@model('std::mem::transmute_copy', 'core::mem::transmute_copy', 'transmute_copy')
def m_transmute_copy(it, args, fr, callee):
    g = last_generics(split_path(callee)[-1])
    dst = it.subst(g[1], fr) if len(g) == 2 else None
    if dst is None:
        raise Unsupported('transmute_copy without type args')
    src = _deref_arg(args[0])
    if dst == 'bool':
        w = it.flatten_word(src)
        if isinstance(w.v, int):
            return Sc('bool', w.v & 1)
        return Sc('bool', z3.Extract(0, 0, w.v))
    return it.transmute(copy_val(src), dst)


@model('std::mem::transmute', 'core::mem::transmute', 'transmute', 'std::intrinsics::transmute', 'core::intrinsics::transmute')
def m_transmute(it, args, fr, callee):
    g = last_generics(split_path(callee)[-1])
    dst = it.subst(g[1], fr) if len(g) == 2 else None
    if dst is None:
        return args[0]
    return it.transmute(args[0], dst)


@model('std::mem::size_of', 'core::mem::size_of', 'size_of')
def m_size_of(it, args, fr, callee):
    g = last_generics(split_path(callee)[-1])
    return Sc('usize', it.size_of(it.subst(g[0], fr)))


@model('std::mem::replace', 'core::mem::replace')
def m_mem_replace(it, args, fr, callee):
    r = args[0]
    old = r.cont[r.key]
    r.cont[r.key] = args[1]
    return old


@model('std::mem::take', 'core::mem::take')
def m_mem_take(it, args, fr, callee):
    r = args[0]
    old = r.cont[r.key]
    if type(old) is VecV:
        r.cont[r.key] = VecV([])
        return old
    raise Unsupported('mem::take of %r' % (old,))


@model('std::mem::swap', 'core::mem::swap')
def m_mem_swap(it, args, fr, callee):
    a, b = args
    a.cont[a.key], b.cont[b.key] = b.cont[b.key], a.cont[a.key]
    return UNIT


@model('std::mem::drop', 'core::mem::drop', 'drop', 'std::mem::forget')
def m_drop(it, args, fr, callee):
    return UNIT


@model('std::ptr::mut_ptr::as_mut', 'std::ptr::const_ptr::as_ref', 'core::ptr::mut_ptr::as_mut', 'core::ptr::const_ptr::as_ref',
       'std::ptr::mut_ptr::as_ref', 'core::ptr::mut_ptr::as_ref')
def m_ptr_as_mut(it, args, fr, callee):
    return some(args[0])


@model('std::ptr::mut_ptr::offset', 'std::ptr::const_ptr::offset', 'core::ptr::mut_ptr::offset', 'core::ptr::const_ptr::offset',
       'std::ptr::mut_ptr::add', 'std::ptr::const_ptr::add', 'core::ptr::mut_ptr::add', 'core::ptr::const_ptr::add')
def m_ptr_offset(it, args, fr, callee):
    p, n = args
    if type(p) is Slice:
        p = Ref(p.buf, p.start)
    # forming the pointer must stay within the allocation (one-past-the-end allowed): C03 obligation
    r = it.ptr_offset(p, n)
    size = len(r.cont)
    if isinstance(r.key, int):
        if not (0 <= r.key <= size):
            raise PanicReached('pointer arithmetic leaves its allocation (offset %d of %d elements)' % (r.key, size), 'oob')
    else:
        it.require(z3.ULE(r.key, z3.BitVecVal(size, 64)), 'pointer arithmetic leaves its allocation (%d elements)' % size, 'oob')
    return r


@model('std::ptr::mut_ptr::is_null', 'std::ptr::const_ptr::is_null', 'core::ptr::mut_ptr::is_null', 'core::ptr::const_ptr::is_null')
def m_is_null(it, args, fr, callee):
    a = args[0]
    if type(a) is Sc and isinstance(a.v, int) and a.v == 0:
        return Sc('bool', 1)
    return Sc('bool', 0)


@model('null_mut', 'null', 'std::ptr::null_mut', 'std::ptr::null', 'core::ptr::null_mut', 'core::ptr::null', 'ptr::null_mut', 'ptr::null')
def m_null_ptr(it, args, fr, callee):
    return Sc('usize', 0)


@model('slice_from_raw_parts_mut', 'slice_from_raw_parts', 'std::ptr::slice_from_raw_parts_mut', 'std::ptr::slice_from_raw_parts',
       'core::slice::from_raw_parts', 'core::slice::from_raw_parts_mut', 'std::slice::from_raw_parts', 'std::slice::from_raw_parts_mut',
       'slice::from_raw_parts', 'slice::from_raw_parts_mut', 'from_raw_parts', 'from_raw_parts_mut')
def m_from_raw_parts(it, args, fr, callee):
    p, n = args
    if type(p) is Slice:
        p = Ref(p.buf, p.start)
    if type(p) is BytePtr:
        nb = it.concretize(n, 'byte length')
        if nb % 8 or p.start + nb // 8 > len(p.buf):
            raise PanicReached('raw byte slice of %d bytes exceeds its allocation of %d words' % (nb, len(p.buf) - p.start), 'oob')
        return ByteSlice(p.buf, p.start, nb)
    if type(p) is not Ref:
        raise Unsupported('from_raw_parts of %r' % (p,))
    size = len(p.cont)
    # the whole range must lie inside the allocation: C03 obligation (UB otherwise)
    if isinstance(p.key, int) and isinstance(n.v, int):
        if p.key + n.v > size:
            raise PanicReached('raw slice [%d..%d] exceeds its allocation of %d elements' % (p.key, p.key + n.v, size), 'oob')
    else:
        end = _addv(p.key, n.v)
        it.require(z3.And(z3.ULE(end, z3.BitVecVal(size, 64)), z3.UGE(end, p.key if not isinstance(p.key, int) else z3.BitVecVal(p.key, 64))),
                   'raw slice exceeds its allocation of %d elements' % size, 'oob')
    return Slice(p.cont, p.key, n.v)


@model('std::ptr::mut_ptr::as_mut', )
def _dup(it, args, fr, callee):
    return some(args[0])


@model('std::option::Option::unwrap_unchecked', 'Option::unwrap_unchecked', 'std::option::Option::unwrap', 'Option::unwrap',
       'Option::expect', 'std::option::Option::expect')
def m_opt_unwrap(it, args, fr, callee):
    o = args[0]
    if o.variant == 1:
        return o.fields[0]
    raise PanicReached('called `Option::unwrap()/expect()` on a `None` value' + (': ' + _panic_msg(args[1:]) if len(args) > 1 else ''), 'panic')


@model('Result::unwrap', 'std::result::Result::unwrap', 'Result::expect', 'std::result::Result::expect')
def m_res_unwrap(it, args, fr, callee):
    o = args[0]
    if o.variant == 0:
        return o.fields[0]
    raise PanicReached('called `Result::unwrap()/expect()` on an `Err` value' + (': ' + _panic_msg(args[1:]) if len(args) > 1 else ''), 'panic')


@model('Result::ok', 'std::result::Result::ok')
def m_res_ok(it, args, fr, callee):
    o = args[0]
    return some(o.fields[0]) if o.variant == 0 else none()


@model('Result::unwrap_or', 'std::result::Result::unwrap_or')
def m_res_unwrap_or(it, args, fr, callee):
    o = args[0]
    return o.fields[0] if o.variant == 0 else args[1]


@model('Option::unwrap_or', 'std::option::Option::unwrap_or')
def m_opt_unwrap_or(it, args, fr, callee):
    o = args[0]
    return o.fields[0] if o.variant == 1 else args[1]


@model('Option::unwrap_or_default', 'std::option::Option::unwrap_or_default')
def m_opt_unwrap_or_default(it, args, fr, callee):
    o = args[0]
    if o.variant == 1:
        return o.fields[0]
    g = last_generics(split_path(callee)[-2])
    t = it.subst(g[0], fr) if g else ''
    if type_head(t) == 'Vec':
        return VecV([])
    if t in INT_W:
        return Sc(t, 0)
    raise Unsupported('unwrap_or_default for %s' % t)


@model('Option::is_some', 'std::option::Option::is_some')
def m_opt_is_some(it, args, fr, callee):
    return Sc('bool', int(_deref_arg(args[0]).variant == 1))


@model('Option::is_some_and', 'std::option::Option::is_some_and')
def m_opt_is_some_and(it, args, fr, callee):
    o, f = _deref_arg(args[0]), args[1]
    if o.variant != 1:
        return Sc('bool', 0)
    r = it.call_value(f, [o.fields[0]], fr)
    return r


@model('Option::is_none_or', 'std::option::Option::is_none_or')
def m_opt_is_none_or(it, args, fr, callee):
    o, f = _deref_arg(args[0]), args[1]
    if o.variant != 1:
        return Sc('bool', 1)
    return it.call_value(f, [o.fields[0]], fr)


@model('BTreeMap::into_values', 'HashMap::into_values', 'std::collections::BTreeMap::into_values', 'std::collections::HashMap::into_values',
       'BTreeMap::values', 'HashMap::values')
def m_map_values(it, args, fr, callee):
    # values in insertion order (a BTreeMap yields them in key order: with symbolic keys the order is left to the consumer's
    # order-independence obligation, as for HashSet iteration)
    m = _deref_arg(args[0])
    if type(m) is not MapV:
        return NotImplemented
    byref = callee.split('<')[0].endswith('::values')
    items = [Ref([v], 0) if byref else v for _, v in m.items]
    return IterV(iter(items), 'map.values', exact=len(items))


@model('Option::as_deref', 'std::option::Option::as_deref', 'Option::as_deref_mut', 'std::option::Option::as_deref_mut')
def m_opt_as_deref(it, args, fr, callee):
    o = _deref_arg(args[0])
    if o.variant != 1:
        return none()
    v = o.fields[0]
    if type(v) is VecV:
        return some(Slice(v.buf, 0, len(v.buf)))
    if type(v) is BoxV:
        return some(Ref(v.cell, 0))
    if type(v) is StrV:
        return some(v)
    raise Unsupported('Option::as_deref of %r' % (v,))


@model('Option::is_none', 'std::option::Option::is_none')
def m_opt_is_none(it, args, fr, callee):
    return Sc('bool', int(_deref_arg(args[0]).variant == 0))


@model('Option::copied', 'std::option::Option::copied', 'Option::cloned', 'std::option::Option::cloned')
def m_opt_copied(it, args, fr, callee):
    o = args[0]
    if o.variant == 0:
        return none()
    r = o.fields[0]
    return some(clone_val(it.load((r.cont, r.key))))


@model('Option::as_ref', 'std::option::Option::as_ref', 'Option::as_mut', 'std::option::Option::as_mut')
def m_opt_as_ref(it, args, fr, callee):
    r = args[0]
    o = r.cont[r.key]
    if o.variant == 0:
        return none()
    return some(Ref(o.fields, 0))


@model('Option::take', 'std::option::Option::take')
def m_opt_take(it, args, fr, callee):
    r = args[0]
    o = r.cont[r.key]
    r.cont[r.key] = none()
    return o


@model('Option::map', 'std::option::Option::map')
def m_opt_map(it, args, fr, callee):
    o, f = args
    if o.variant == 0:
        return none()
    return some(it.call_value(f, [o.fields[0]], fr))


@model('Option::and_then', 'std::option::Option::and_then')
def m_opt_and_then(it, args, fr, callee):
    o, f = args
    if o.variant == 0:
        return none()
    return it.call_value(f, [o.fields[0]], fr)


@model('Option::or_else', 'std::option::Option::or_else')
def m_opt_or_else(it, args, fr, callee):
    o, f = args
    if o.variant == 1:
        return o
    return it.call_value(f, [], fr)


@model('Option::unwrap_or_else', 'std::option::Option::unwrap_or_else')
def m_opt_unwrap_or_else(it, args, fr, callee):
    o, f = args
    if o.variant == 1:
        return o.fields[0]
    return it.call_value(f, [], fr)


@model('Option::map_or', 'std::option::Option::map_or')
def m_opt_map_or(it, args, fr, callee):
    o, d, f = args
    if o.variant == 0:
        return d
    return it.call_value(f, [o.fields[0]], fr)


@model('Option::ok_or', 'std::option::Option::ok_or')
def m_opt_ok_or(it, args, fr, callee):
    o, e = args
    return ok(o.fields[0]) if o.variant == 1 else err(e)


@model('Option::filter', 'std::option::Option::filter')
def m_opt_filter(it, args, fr, callee):
    o, f = args
    if o.variant == 0:
        return o
    keep = it.call_value(f, [Ref(o.fields, 0)], fr)
    return o if it.truth(keep) else none()


@model('Result::map', 'std::result::Result::map')
def m_res_map(it, args, fr, callee):
    o, f = args
    if o.variant == 1:
        return o
    return ok(it.call_value(f, [o.fields[0]], fr))


@model('Result::map_err', 'std::result::Result::map_err')
def m_res_map_err(it, args, fr, callee):
    o, f = args
    if o.variant == 0:
        return o
    return err(it.call_value(f, [o.fields[0]], fr))


@model('bool::then_some', 'core::bool::then_some')
def m_then_some(it, args, fr, callee):
    return some(args[1]) if it.truth(args[0]) else none()


@model('bool::then', 'core::bool::then')
def m_then(it, args, fr, callee):
    return some(it.call_value(args[1], [], fr)) if it.truth(args[0]) else none()


# closures through Fn* traits ------------------------------------------------------------------------
@tmodel('*', 'FnMut', 'call_mut')
@tmodel('*', 'Fn', 'call')
@tmodel('*', 'FnOnce', 'call_once')
def m_fn_call(it, args, fr, callee):
    f, tup = args[0], args[1]
    return it.call_value(f, list(tup.fields), fr)


# =================================================================================================
# Vec / slices
# =================================================================================================
@model('Vec::new', 'std::vec::Vec::new', 'Vec::with_capacity', 'std::vec::Vec::with_capacity')
def m_vec_new(it, args, fr, callee):
    return VecV([])


@model('Vec::len', 'std::vec::Vec::len')
def m_vec_len(it, args, fr, callee):
    return Sc('usize', len(deref_vec(args[0]).buf))


@model('Vec::is_empty', 'std::vec::Vec::is_empty')
def m_vec_is_empty(it, args, fr, callee):
    return Sc('bool', int(len(deref_vec(args[0]).buf) == 0))


@model('Vec::push', 'std::vec::Vec::push')
def m_vec_push(it, args, fr, callee):
    deref_vec(args[0]).buf.append(args[1])
    return UNIT


@model('Vec::pop', 'std::vec::Vec::pop')
def m_vec_pop(it, args, fr, callee):
    b = deref_vec(args[0]).buf
    return some(b.pop()) if b else none()


@model('Vec::resize', 'std::vec::Vec::resize')
def m_vec_resize(it, args, fr, callee):
    b = deref_vec(args[0]).buf
    n = it.concretize(args[1], 'Vec::resize length')
    if n > 50_000_000:
        raise PanicReached('Vec::resize to %d elements (capacity overflow / allocation failure)' % n, 'panic')
    if n < len(b):
        del b[n:]
    else:
        for _ in range(n - len(b)):
            b.append(clone_val(args[2]))
    return UNIT


@model('Vec::truncate', 'std::vec::Vec::truncate')
def m_vec_truncate(it, args, fr, callee):
    b = deref_vec(args[0]).buf
    n = it.concretize(args[1], 'Vec::truncate length')
    if n < len(b):
        del b[n:]
    return UNIT


@model('Vec::clear', 'std::vec::Vec::clear')
def m_vec_clear(it, args, fr, callee):
    del deref_vec(args[0]).buf[:]
    return UNIT


@model('Vec::as_ptr', 'std::vec::Vec::as_ptr', 'Vec::as_mut_ptr', 'std::vec::Vec::as_mut_ptr')
def m_vec_as_ptr(it, args, fr, callee):
    return Ref(deref_vec(args[0]).buf, 0)


@model('Vec::as_slice', 'std::vec::Vec::as_slice', 'Vec::as_mut_slice', 'std::vec::Vec::as_mut_slice')
def m_vec_as_slice(it, args, fr, callee):
    b = deref_vec(args[0]).buf
    return Slice(b, 0, len(b))


@tmodel('Vec', 'Deref', 'deref')
@tmodel('Vec', 'DerefMut', 'deref_mut')
@tmodel('Vec', 'AsRef', 'as_ref')
@tmodel('Vec', 'Borrow', 'borrow')
def m_vec_deref(it, args, fr, callee):
    b = deref_vec(args[0]).buf
    return Slice(b, 0, len(b))


@tmodel('Vec', 'Clone', 'clone')
def m_vec_clone(it, args, fr, callee):
    return clone_val(deref_vec(args[0]))


@tmodel('Vec', 'Default', 'default')
def m_vec_default(it, args, fr, callee):
    return VecV([])


@model('std::vec::from_elem', 'alloc::vec::from_elem', 'from_elem')
def m_from_elem(it, args, fr, callee):
    n = it.concretize(args[1], 'vec![x; n] length')
    if n > 50_000_000:
        raise PanicReached('vec![_; %d] (capacity overflow / allocation failure)' % n, 'panic')
    return VecV([clone_val(args[0]) for _ in range(n)])


@model('std::slice::into_vec', 'slice::into_vec', 'alloc::slice::into_vec')
def m_into_vec(it, args, fr, callee):
    b = args[0]
    if type(b) is BoxV:
        arr = b.cell[0]
        return VecV(list(arr.fields))
    raise Unsupported('into_vec of %r' % (b,))


@model('Box::new', 'std::boxed::Box::new')
def m_box_new(it, args, fr, callee):
    return BoxV(args[0])


@model('Box::from_raw', 'std::boxed::Box::from_raw')
def m_box_from_raw(it, args, fr, callee):
    # ownership of the allocation behind the raw (fat) pointer returns to a Box; dropping it frees the buffer
    return BoxV(args[0])


@model('std::boxed::box_new_uninit', 'alloc::boxed::box_new_uninit', 'box_new_uninit', 'alloc::alloc::exchange_malloc', 'exchange_malloc')
def m_box_uninit(it, args, fr, callee):
    return BoxV(UNINIT)


@model('Box::new_uninit', 'std::boxed::Box::new_uninit')
def m_box_new_uninit(it, args, fr, callee):
    # Box<MaybeUninit<T>>: union MaybeUninit { uninit: (), value: ManuallyDrop<MaybeDangling<T>> }
    return BoxV(Agg('MaybeUninit', None, [UNIT, Agg('ManuallyDrop', None, [Agg('MaybeDangling', None, [UNINIT])])]))


@model('Box::write', 'std::boxed::Box::write', 'std::boxed::box_assume_init_into_vec_unsafe', 'box_assume_init_into_vec_unsafe')
def m_box_write(it, args, fr, callee):
    if 'into_vec' in callee:
        arr = args[0].cell[0]
        if type(arr) is Agg and arr.ty == 'MaybeUninit':
            arr = arr.fields[1].fields[0].fields[0]
        return VecV(list(arr.fields))
    args[0].cell[0] = args[1]
    return args[0]


@tmodel('Box', 'Clone', 'clone')
def m_box_clone(it, args, fr, callee):
    return clone_val(_deref_arg(args[0]))


@tmodel('Vec', 'Index', 'index')
@tmodel('Vec', 'IndexMut', 'index_mut')
@tmodel('[]', 'Index', 'index')
@tmodel('[]', 'IndexMut', 'index_mut')
def m_index(it, args, fr, callee):
    s = as_slice(args[0])
    idx = args[1]
    return slice_index(it, s, idx, True)


def slice_index(it, s, idx, panic_oob):
    """idx: usize scalar or Range-like Agg.  returns Ref / Slice, or None when out of range and not panic_oob"""
    if type(idx) is Sc:
        i = idx.v
        if isinstance(i, int) and isinstance(s.len, int):
            if i >= s.len:
                if panic_oob:
                    raise PanicReached('index out of bounds: the len is %d but the index is %d' % (s.len, i), 'assert')
                return None
        else:
            inb = z3.ULT(_bv64(i), _bv64(s.len))
            if panic_oob:
                it.require(inb, 'index out of bounds (len %s)' % (s.len,), 'assert')
            elif not it.branch(inb):
                return None
        return Ref(s.buf, _addv(s.start, i))
    if type(idx) is Agg:
        ty = idx.ty
        if ty == 'Range':
            a, b = idx.fields[0].v, idx.fields[1].v
        elif ty == 'RangeTo':
            a, b = 0, idx.fields[0].v
        elif ty == 'RangeFrom':
            a, b = idx.fields[0].v, s.len
        elif ty == 'RangeFull':
            a, b = 0, s.len
        elif ty == 'RangeInclusive':
            a, b = idx.fields[0].v, _addv(idx.fields[1].v, 1)
        else:
            raise Unsupported('slice index by %s' % ty)
        if all(isinstance(x, int) for x in (a, b, s.len)):
            if a > b or b > s.len:
                if panic_oob:
                    raise PanicReached('range %d..%d out of bounds for slice of length %d' % (a, b, s.len), 'assert')
                return None
        else:
            c = z3.And(z3.ULE(_bv64(a), _bv64(b)), z3.ULE(_bv64(b), _bv64(s.len)))
            if panic_oob:
                it.require(c, 'range out of bounds for slice', 'assert')
            elif not it.branch(c):
                return None
        return Slice(s.buf, _addv(s.start, a), _subv(b, a))
    raise Unsupported('slice index by %r' % (idx,))


def _bv64(v):
    return z3.BitVecVal(v, 64) if isinstance(v, int) else v


def _subv(a, b):
    if isinstance(a, int) and isinstance(b, int):
        return a - b
    return _bv64(a) - _bv64(b)


@model('core::slice::get', 'slice::get', 'core::slice::get_mut', 'slice::get_mut')
def m_slice_get(it, args, fr, callee):
    s = as_slice(args[0])
    r = slice_index(it, s, args[1], False)
    return none() if r is None else some(r)


@model('core::slice::get_unchecked', 'core::slice::get_unchecked_mut', 'slice::get_unchecked', 'slice::get_unchecked_mut')
def m_slice_get_unchecked(it, args, fr, callee):
    s = as_slice(args[0])
    idx = args[1]
    if type(idx) is not Sc:
        raise Unsupported('get_unchecked with range')
    i = idx.v
    # UB if out of range: C03 obligation
    if isinstance(i, int) and isinstance(s.len, int):
        if i >= s.len:
            raise PanicReached('get_unchecked index %d out of range for slice of length %d (undefined behaviour)' % (i, s.len), 'oob')
    else:
        it.require(z3.ULT(_bv64(i), _bv64(s.len)), 'get_unchecked index out of range (undefined behaviour)', 'oob')
    r = Ref(s.buf, _addv(s.start, i))
    if not isinstance(r.key, int) and isinstance(s.start, int) and isinstance(s.len, int):
        hints = getattr(it, 'index_hints', None)
        if hints is None:
            hints = it.index_hints = {}
        k = z3.simplify(r.key)
        it._keep = getattr(it, '_keep', [])
        it._keep.append(k)
        hints[k.get_id()] = (s.start, s.start + s.len)
        r = Ref(s.buf, k)
    return r


@model('core::slice::len', 'slice::len')
def m_slice_len(it, args, fr, callee):
    return Sc('usize', as_slice(args[0]).len)


@model('core::slice::is_empty', 'slice::is_empty')
def m_slice_is_empty(it, args, fr, callee):
    ln = as_slice(args[0]).len
    if isinstance(ln, int):
        return Sc('bool', int(ln == 0))
    return Sc('bool', _b2bv(ln == 0))


@model('core::slice::first', 'slice::first', 'core::slice::first_mut')
def m_slice_first(it, args, fr, callee):
    s = as_slice(args[0])
    n = it.concretize(Sc('usize', s.len), 'slice length')
    return some(Ref(s.buf, s.start)) if n > 0 else none()


def _key_scalars(k):
    """flatten a sort / dedup key (integer scalars and tuples of them) into a list of Sc"""
    if type(k) is Ref:
        k = k.cont[k.key]
    if type(k) is Sc:
        return [k]
    if type(k) is Agg:
        out = []
        for f in k.fields:
            out += _key_scalars(f)
        return out
    raise Unsupported('sort / dedup key %r' % (k,))


def _key_less(it, ka, kb):
    """lexicographic a < b on unsigned integer keys, forking the path on every symbolic comparison"""
    for a, b in zip(ka, kb):
        if a.t in SIGNED or a.t == 'f64':
            raise Unsupported('sort key of type %s' % a.t)
        A, B = it.bv(a), it.bv(b)
        if it.branch(z3.ULT(A, B)):
            return True
        if not it.branch(A == B):
            return False
    return False


def _key_equal(it, ka, kb):
    for a, b in zip(ka, kb):
        if not it.branch(it.bv(a) == it.bv(b)):
            return False
    return True


@model('core::slice::sort_unstable_by_key', 'slice::sort_unstable_by_key', 'core::slice::sort_by_key', 'slice::sort_by_key',
       'alloc::slice::sort_by_key', 'core::slice::sort_by_cached_key', 'slice::sort_by_cached_key')
def m_slice_sort_by_key(it, args, fr, callee):
    # insertion sort (stable); with symbolic keys every comparison the order depends on forks the path.  An UNSTABLE sort may
    # order equal keys either way: the consumer's independence of that order is its own obligation
    s = as_slice(args[0])
    n = it.concretize(Sc('usize', s.len), 'slice length')
    st = it.concretize(Sc('usize', s.start), 'slice start')
    items = [s.buf[st + i] for i in range(n)]
    keys = [_key_scalars(it.call_value(args[1], [Ref(s.buf, st + i)], fr)) for i in range(n)]
    order = []
    for i in range(n):
        j = len(order)
        while j > 0 and _key_less(it, keys[i], keys[order[j - 1]]):
            j -= 1
        order.insert(j, i)
    for pos, i in enumerate(order):
        s.buf[st + pos] = items[i]
    return UNIT


@model('Vec::dedup_by_key', 'std::vec::Vec::dedup_by_key')
def m_vec_dedup_by_key(it, args, fr, callee):
    v = deref_vec(args[0])
    if not v.buf:
        return UNIT
    out = [v.buf[0]]
    last = _key_scalars(it.call_value(args[1], [Ref(out, 0)], fr))
    for x in v.buf[1:]:
        cell = [x]
        k = _key_scalars(it.call_value(args[1], [Ref(cell, 0)], fr))
        if _key_equal(it, k, last):
            continue
        out.append(x)
        last = k
    v.buf[:] = out
    return UNIT


@model('std::slice::from_ref', 'core::slice::from_ref', 'slice::from_ref', 'std::slice::from_mut', 'core::slice::from_mut', 'slice::from_mut')
def m_slice_from_ref(it, args, fr, callee):
    r = args[0]
    if type(r) is not Ref:
        raise Unsupported('slice::from_ref of %r' % (r,))
    return Slice(r.cont, r.key, 1)


@model('core::slice::split_first', 'slice::split_first', 'core::slice::split_first_mut', 'slice::split_first_mut')
def m_slice_split_first(it, args, fr, callee):
    s = as_slice(args[0])
    n = it.concretize(Sc('usize', s.len), 'slice length')
    if n == 0:
        return none()
    return some(Agg('tuple', None, [Ref(s.buf, s.start), Slice(s.buf, _addv(s.start, 1) if not isinstance(s.start, int) else s.start + 1, n - 1)]))


@model('core::slice::split_last', 'slice::split_last', 'core::slice::split_last_mut', 'slice::split_last_mut')
def m_slice_split_last(it, args, fr, callee):
    s = as_slice(args[0])
    n = it.concretize(Sc('usize', s.len), 'slice length')
    if n == 0:
        return none()
    last = s.start + n - 1 if isinstance(s.start, int) else _addv(s.start, n - 1)
    return some(Agg('tuple', None, [Ref(s.buf, last), Slice(s.buf, s.start, n - 1)]))


@model('core::slice::last', 'slice::last', 'core::slice::last_mut')
def m_slice_last(it, args, fr, callee):
    s = as_slice(args[0])
    n = it.concretize(Sc('usize', s.len), 'slice length')
    return some(Ref(s.buf, s.start + n - 1)) if n > 0 else none()


@model('core::slice::as_ptr', 'slice::as_ptr', 'core::slice::as_mut_ptr', 'slice::as_mut_ptr')
def m_slice_as_ptr(it, args, fr, callee):
    s = as_slice(args[0])
    return Ref(s.buf, s.start)


@model('core::slice::to_vec', 'slice::to_vec', 'std::slice::to_vec', 'alloc::slice::to_vec')
def m_slice_to_vec(it, args, fr, callee):
    s = as_slice(args[0])
    return VecV([clone_val(x) for x in slice_items(it, s)])


@model('core::slice::copy_from_slice', 'slice::copy_from_slice')
def m_copy_from_slice(it, args, fr, callee):
    d, s = as_slice(args[0]), as_slice(args[1])
    dl = it.concretize(Sc('usize', d.len), 'slice length')
    sl = it.concretize(Sc('usize', s.len), 'slice length')
    if dl != sl:
        raise PanicReached('copy_from_slice: source slice length (%d) does not match destination slice length (%d)' % (sl, dl), 'panic')
    items = [copy_val(x) for x in slice_items(it, s)]
    ds = it.concretize(Sc('usize', d.start), 'slice start')
    if ds + dl > len(d.buf):
        raise PanicReached('copy_from_slice destination beyond its allocation', 'oob')
    d.buf[ds:ds + dl] = items
    return UNIT


@model('core::slice::copy_within', 'slice::copy_within')
def m_copy_within(it, args, fr, callee):
    s, rng, dest = as_slice(args[0]), args[1], args[2]
    n = it.concretize(Sc('usize', s.len), 'slice length')
    a = it.concretize(rng.fields[0], 'range start')
    b = it.concretize(rng.fields[1], 'range end')
    d = it.concretize(dest, 'copy_within dest')
    if a > b:
        raise PanicReached('slice index starts at %d but ends at %d' % (a, b), 'panic')
    if b > n:
        raise PanicReached('range end index %d out of range for slice of length %d' % (b, n), 'panic')
    if d > n - (b - a):
        raise PanicReached('copy_within: dest is out of bounds', 'panic')
    st = s.start
    items = [copy_val(x) for x in s.buf[st + a:st + b]]
    s.buf[st + d:st + d + (b - a)] = items
    return UNIT


@model('core::slice::fill', 'slice::fill')
def m_slice_fill(it, args, fr, callee):
    s = as_slice(args[0])
    n = it.concretize(Sc('usize', s.len), 'slice length')
    for i in range(s.start, s.start + n):
        s.buf[i] = copy_val(args[1])
    return UNIT


@model('core::slice::split_at', 'slice::split_at', 'core::slice::split_at_mut')
def m_split_at(it, args, fr, callee):
    s = as_slice(args[0])
    mid = args[1].v
    if isinstance(mid, int) and isinstance(s.len, int):
        if mid > s.len:
            raise PanicReached('split_at: mid > len', 'panic')
    else:
        it.require(z3.ULE(_bv64(mid), _bv64(s.len)), 'split_at: mid > len', 'panic')
    return Agg('tuple', None, [Slice(s.buf, s.start, mid), Slice(s.buf, _addv(s.start, mid), _subv(s.len, mid))])


@model('core::slice::binary_search', 'slice::binary_search')
def m_binary_search(it, args, fr, callee):
    raise Unsupported('binary_search')


@model('Vec::extend_from_slice', 'std::vec::Vec::extend_from_slice')
def m_extend_from_slice(it, args, fr, callee):
    v = deref_vec(args[0])
    v.buf.extend(clone_val(x) for x in slice_items(it, as_slice(args[1])))
    return UNIT


@model('Vec::insert', 'std::vec::Vec::insert')
def m_vec_insert(it, args, fr, callee):
    v = deref_vec(args[0])
    i = it.concretize(args[1], 'Vec::insert index')
    if i > len(v.buf):
        raise PanicReached('Vec::insert index out of bounds', 'panic')
    v.buf.insert(i, args[2])
    return UNIT


@model('Vec::remove', 'std::vec::Vec::remove')
def m_vec_remove(it, args, fr, callee):
    v = deref_vec(args[0])
    i = it.concretize(args[1], 'Vec::remove index')
    if i >= len(v.buf):
        raise PanicReached('Vec::remove index out of bounds', 'panic')
    return v.buf.pop(i)


@model('Vec::last', 'Vec::last_mut')
def m_vec_last(it, args, fr, callee):
    b = deref_vec(args[0]).buf
    return some(Ref(b, len(b) - 1)) if b else none()


# =================================================================================================
# Range iteration and iterator adaptors: lazily evaluated python generators
# =================================================================================================
class IterV(object):
    """a Rust iterator as a python generator of values"""
    __slots__ = ('gen', 'desc', 'buffer', 'exact')

    def __init__(self, gen, desc, exact=None):
        self.gen = gen
        self.desc = desc
        self.buffer = []
        self.exact = exact

    def next(self):
        try:
            return next(self.gen)
        except StopIteration:
            return None


def to_iter(it, x, fr):
    """anything iterable in our model -> IterV"""
    if type(x) is IterV:
        return x
    if type(x) is Ref:
        t = x.cont[x.key]
        if type(t) is IterV:
            return t
        if type(t) is VecV:
            buf = t.buf
            return IterV((Ref(buf, i) for i in range(len(buf))), 'vec.iter')
        if type(t) is Agg and t.ty in ('Range', 'RangeInclusive'):
            return range_iter(it, t, x)
        if type(t) is Agg and t.ty == 'array':
            return IterV((Ref(t.fields, i) for i in range(len(t.fields))), 'array.iter')
        if type(t) is Slice:
            x = t
    if type(x) is Slice:
        ln = it.concretize(Sc('usize', x.len), 'slice length')
        if not isinstance(x.start, int) and not z3.is_bv_value(z3.simplify(x.start)):
            st0 = z3.simplify(x.start)
            buf = x.buf
            it.require(z3.ULE(st0, z3.BitVecVal(len(buf) - ln, 64)) if len(buf) >= ln else z3.BoolVal(False),
                       'slice with symbolic start exceeds its allocation of %d elements' % len(buf), 'oob')
            return IterV((Ref(buf, st0 + i) for i in range(ln)), 'slice.iter', exact=ln)
        st = it.concretize(Sc('usize', x.start), 'slice start')
        if st + ln > len(x.buf):
            raise PanicReached('slice iteration beyond its allocation', 'oob')
        buf = x.buf
        return IterV((Ref(buf, i) for i in range(st, st + ln)), 'slice.iter', exact=ln)
    if type(x) is VecV:
        items = list(x.buf)
        return IterV(iter(items), 'vec.into_iter', exact=len(items))
    if type(x) is Agg and x.ty in ('Range', 'RangeInclusive'):
        return range_iter(it, x, None)
    if type(x) is Agg and x.ty == 'array':
        return IterV(iter(list(x.fields)), 'array.into_iter', exact=len(x.fields))
    if type(x) is Agg and x.ty == 'Option':
        return IterV(iter(list(x.fields) if x.variant == 1 else []), 'option.iter')
    if type(x) is MapV:
        # HashSet / HashMap / BTree* consumed by value (`for p in set`, `vec.extend(set)`): insertion order; order-irrelevance of the
        # consumer is the caller's obligation (C08 decides it through the "no destination word twice" clause)
        items = [k if x.kind == 'set' else Agg('tuple', None, [k, v]) for k, v in x.items]
        return IterV(iter(items), 'map.into_iter', exact=len(items))
    if type(x) is Agg and x.ty == 'Result':
        # impl IntoIterator for Result<T, E>: yields the Ok value, nothing for Err
        return IterV(iter(list(x.fields) if x.variant == 0 else []), 'result.into_iter')
    raise Unsupported('not iterable: %r' % (x,))


@model('std::iter::from_fn', 'core::iter::from_fn', 'iter::from_fn')
def m_iter_from_fn(it, args, fr, callee):
    f = args[0]

    def gen():
        for _ in range(100000):
            r = it.call_value(f, [], fr)
            if r.variant != 1:
                return
            yield r.fields[0]
        raise Unsupported('iter::from_fn: more than 100000 items')
    return IterV(gen(), 'from_fn')


def range_iter(it, r, ref):
    t = r.fields[0].t
    a = it.concretize(r.fields[0], 'range start')
    b = it.concretize(r.fields[1], 'range end')
    w = INT_W[t]
    if t in SIGNED:
        a, b = to_signed(a, w), to_signed(b, w)
    if r.ty == 'RangeInclusive':
        b += 1

    def gen():
        i = a
        while i < b:
            yield Sc(t, i & mask(w))
            i += 1
    return IterV(gen(), 'range', exact=max(0, b - a))


@tmodel('*', 'IntoIterator', 'into_iter')
def m_into_iter(it, args, fr, callee):
    return to_iter(it, args[0], fr)


@model('core::slice::iter', 'slice::iter', 'core::slice::iter_mut', 'slice::iter_mut')
def m_slice_iter(it, args, fr, callee):
    return to_iter(it, as_slice(args[0]), fr)


@model('Vec::iter', 'Vec::iter_mut')
def m_vec_iter(it, args, fr, callee):
    return to_iter(it, as_slice(args[0]), fr)


@model('Vec::into_iter', 'std::vec::Vec::into_iter')
def m_vec_into_iter(it, args, fr, callee):
    return to_iter(it, args[0], fr)


def _iter_arg(it, x, fr):
    if type(x) is Ref and type(x.cont[x.key]) is IterV:
        return x.cont[x.key]
    return to_iter(it, x, fr)


@tmodel('*', 'Iterator', 'next')
def m_iter_next(it, args, fr, callee):
    i = _iter_arg(it, args[0], fr)
    v = i.next()
    return none() if v is None else some(v)


@tmodel('*', 'DoubleEndedIterator', 'next_back')
def m_iter_next_back(it, args, fr, callee):
    raise Unsupported('next_back')


@tmodel('*', 'Iterator', 'map')
def m_iter_map(it, args, fr, callee):
    src = _iter_arg(it, args[0], fr)
    f = args[1]
    return IterV((it.call_value(f, [x], fr) for x in src.gen), 'map', exact=src.exact)


@tmodel('*', 'Iterator', 'enumerate')
def m_iter_enumerate(it, args, fr, callee):
    src = _iter_arg(it, args[0], fr)
    return IterV((Agg('tuple', None, [Sc('usize', i), x]) for i, x in enumerate(src.gen)), 'enumerate', exact=src.exact)


@tmodel('*', 'Iterator', 'zip')
def m_iter_zip(it, args, fr, callee):
    a = _iter_arg(it, args[0], fr)
    b = to_iter(it, args[1], fr)
    return IterV((Agg('tuple', None, [x, y]) for x, y in zip(a.gen, b.gen)), 'zip')


@tmodel('*', 'Iterator', 'take')
def m_iter_take(it, args, fr, callee):
    src = _iter_arg(it, args[0], fr)
    n = it.concretize(args[1], 'take count')

    def gen():
        k = 0
        while k < n:
            v = src.next()
            if v is None:
                return
            yield v
            k += 1
    return IterV(gen(), 'take')


@tmodel('*', 'Iterator', 'skip')
def m_iter_skip(it, args, fr, callee):
    src = _iter_arg(it, args[0], fr)
    n = it.concretize(args[1], 'skip count')

    def gen():
        for _ in range(n):
            if src.next() is None:
                return
        for v in src.gen:
            yield v
    return IterV(gen(), 'skip')


@tmodel('*', 'Iterator', 'rev')
def m_iter_rev(it, args, fr, callee):
    src = _iter_arg(it, args[0], fr)
    items = list(src.gen)
    return IterV(iter(items[::-1]), 'rev', exact=len(items))


@tmodel('*', 'Iterator', 'cloned')
@tmodel('*', 'Iterator', 'copied')
def m_iter_cloned(it, args, fr, callee):
    src = _iter_arg(it, args[0], fr)
    return IterV((clone_val(it.load((r.cont, r.key))) for r in src.gen), 'cloned', exact=src.exact)


@tmodel('*', 'Iterator', 'filter')
def m_iter_filter(it, args, fr, callee):
    src = _iter_arg(it, args[0], fr)
    f = args[1]

    def gen():
        for x in src.gen:
            cell = [x]
            if it.truth(it.call_value(f, [Ref(cell, 0)], fr)):
                yield cell[0]
    return IterV(gen(), 'filter')


@tmodel('*', 'Iterator', 'filter_map')
def m_iter_filter_map(it, args, fr, callee):
    src = _iter_arg(it, args[0], fr)
    f = args[1]

    def gen():
        for x in src.gen:
            r = it.call_value(f, [x], fr)
            if r.variant == 1:
                yield r.fields[0]
    return IterV(gen(), 'filter_map')


@tmodel('*', 'Iterator', 'flat_map')
def m_iter_flat_map(it, args, fr, callee):
    src = _iter_arg(it, args[0], fr)
    f = args[1]

    def gen():
        for x in src.gen:
            inner = to_iter(it, it.call_value(f, [x], fr), fr)
            for y in inner.gen:
                yield y
    return IterV(gen(), 'flat_map')


@tmodel('*', 'Iterator', 'chain')
def m_iter_chain(it, args, fr, callee):
    a = _iter_arg(it, args[0], fr)
    b = to_iter(it, args[1], fr)

    def gen():
        for x in a.gen:
            yield x
        for x in b.gen:
            yield x
    return IterV(gen(), 'chain')


@tmodel('*', 'Iterator', 'for_each')
def m_iter_for_each(it, args, fr, callee):
    src = _iter_arg(it, args[0], fr)
    f = args[1]
    for x in src.gen:
        it.call_value(f, [x], fr)
    return UNIT


@tmodel('*', 'Iterator', 'fold')
def m_iter_fold(it, args, fr, callee):
    src = _iter_arg(it, args[0], fr)
    acc, f = args[1], args[2]
    for x in src.gen:
        acc = it.call_value(f, [acc, x], fr)
    return acc


@tmodel('*', 'Iterator', 'try_fold')
def m_iter_try_fold(it, args, fr, callee):
    src = _iter_arg(it, args[0], fr)
    acc, f = args[1], args[2]
    # R = Option<..> in the analysed code
    for x in src.gen:
        r = it.call_value(f, [acc, x], fr)
        if r.ty == 'Option':
            if r.variant == 0:
                return r
            acc = r.fields[0]
        elif r.ty == 'Result':
            if r.variant == 1:
                return r
            acc = r.fields[0]
        else:
            raise Unsupported('try_fold over %s' % r.ty)
    g = last_generics(split_path(callee)[-1])
    rt = g[-1] if g else 'Option'
    return some(acc) if 'Option' in rt else ok(acc)


@tmodel('*', 'Iterator', 'sum')
def m_iter_sum(it, args, fr, callee):
    src = _iter_arg(it, args[0], fr)
    g = last_generics(split_path(callee)[-1])
    t = it.subst(g[0], fr) if g else 'u64'
    acc = Sc(t, 0) if t in INT_W else None
    if acc is None:
        if t == 'f64':
            acc = Sc('f64', 0)
        else:
            raise Unsupported('sum of %s' % t)
    for x in src.gen:
        if type(x) is Ref:
            x = it.load((x.cont, x.key))
        if t in INT_W:
            r = it.binop('AddWithOverflow', acc, x)
            # std: debug builds panic on overflow in Sum for integers
            if isinstance(r.fields[1].v, int):
                if r.fields[1].v:
                    raise PanicReached('attempt to add with overflow (iter::sum)', 'assert')
            else:
                it.require(r.fields[1].v == 0, 'attempt to add with overflow (iter::sum)', 'assert')
            acc = r.fields[0]
        else:
            acc = it.binop('Add', acc, x)
    return acc


@tmodel('*', 'Iterator', 'count')
def m_iter_count(it, args, fr, callee):
    src = _iter_arg(it, args[0], fr)
    return Sc('usize', sum(1 for _ in src.gen))


@tmodel('*', 'ExactSizeIterator', 'len')
def m_iter_len(it, args, fr, callee):
    src = _iter_arg(it, args[0], fr)
    items = list(src.gen)
    src.gen = iter(items)
    return Sc('usize', len(items))


@tmodel('*', 'Iterator', 'all')
def m_iter_all(it, args, fr, callee):
    src = _iter_arg(it, args[0], fr)
    f = args[1]
    for x in src.gen:
        if not it.truth(it.call_value(f, [x], fr)):
            return Sc('bool', 0)
    return Sc('bool', 1)


@tmodel('*', 'Iterator', 'any')
def m_iter_any(it, args, fr, callee):
    src = _iter_arg(it, args[0], fr)
    f = args[1]
    for x in src.gen:
        if it.truth(it.call_value(f, [x], fr)):
            return Sc('bool', 1)
    return Sc('bool', 0)


@tmodel('*', 'Iterator', 'find')
def m_iter_find(it, args, fr, callee):
    src = _iter_arg(it, args[0], fr)
    f = args[1]
    for x in src.gen:
        cell = [x]
        if it.truth(it.call_value(f, [Ref(cell, 0)], fr)):
            return some(cell[0])
    return none()


@tmodel('*', 'Iterator', 'find_map')
def m_iter_find_map(it, args, fr, callee):
    src = _iter_arg(it, args[0], fr)
    f = args[1]
    for x in src.gen:
        r = it.call_value(f, [x], fr)
        if r.variant == 1:
            return r
    return none()


@tmodel('*', 'Iterator', 'position')
def m_iter_position(it, args, fr, callee):
    src = _iter_arg(it, args[0], fr)
    f = args[1]
    for i, x in enumerate(src.gen):
        if it.truth(it.call_value(f, [x], fr)):
            return some(Sc('usize', i))
    return none()


@tmodel('*', 'Iterator', 'last')
def m_iter_last(it, args, fr, callee):
    src = _iter_arg(it, args[0], fr)
    last = None
    for x in src.gen:
        last = x
    return none() if last is None else some(last)


@tmodel('Vec', 'Extend', 'extend')
def m_vec_extend(it, args, fr, callee):
    v = deref_vec(args[0])
    src = _iter_arg(it, args[1], fr)
    v.buf.extend(list(src.gen))
    return UNIT


@tmodel('*', 'Iterator', 'collect')
def m_iter_collect(it, args, fr, callee):
    src = _iter_arg(it, args[0], fr)
    g = last_generics(split_path(callee)[-1])
    target = it.subst(g[0], fr) if g else 'Vec'
    h = type_head(target)
    items = list(src.gen)
    if h == 'Vec':
        return VecV(items)
    if h in ('HashSet', 'BTreeSet'):
        m = MapV('set')
        for x in items:
            map_insert(it, m, x, UNIT, fr)
        return m
    if h in ('HashMap', 'BTreeMap'):
        m = MapV('map')
        for x in items:
            map_insert(it, m, x.fields[0], x.fields[1], fr)
        return m
    if h == 'Option':
        out = []
        for x in items:
            if x.variant == 0:
                return none()
            out.append(x.fields[0])
        return some(VecV(out))
    if h == 'Result':
        # Result<Vec<T>, E>: first Err wins (the iterator is consumed lazily up to it; the sources mapped here are pure)
        out = []
        for x in items:
            if x.variant == 1:
                return x
            out.append(x.fields[0])
        return ok(VecV(out))
    raise Unsupported('collect into %s' % target)


@tmodel('*', 'FromIterator', 'from_iter')
def m_from_iter(it, args, fr, callee):
    end = match_close(callee, 0)
    inner = callee[1:end]
    k = _top_as(inner)
    target = it.subst(inner[:k].strip(), fr)
    src = to_iter(it, args[0], fr)
    items = list(src.gen)
    h = type_head(target)
    if h == 'Vec':
        return VecV(items)
    if h in ('HashSet', 'BTreeSet'):
        m = MapV('set')
        for x in items:
            map_insert(it, m, x, UNIT, fr)
        return m
    if h in ('HashMap', 'BTreeMap'):
        m = MapV('map')
        for x in items:
            map_insert(it, m, x.fields[0], x.fields[1], fr)
        return m
    raise Unsupported('from_iter into %s' % target)


@model('itertools::concat', 'concat')
def m_itertools_concat(it, args, fr, callee):
    src = to_iter(it, args[0], fr)
    out = []
    for x in src.gen:
        out.extend(deref_vec(x).buf if type(x) is not VecV else x.buf)
    return VecV(out)


@model('core::slice::concat', 'slice::concat', 'std::slice::concat')
def m_slice_concat(it, args, fr, callee):
    s = as_slice(args[0])
    out = []
    for x in slice_items(it, s):
        out.extend(clone_val(y) for y in (x.buf if type(x) is VecV else x.fields))
    return VecV(out)


# =================================================================================================
# HashMap / HashSet as association lists; key equality is structural with solver-decided scalars
# =================================================================================================
def values_equal(it, a, b, fr):
    """structural equality deciding symbolic scalars by forking"""
    if type(a) is Ref:
        a = it.load((a.cont, a.key))
    if type(b) is Ref:
        b = it.load((b.cont, b.key))
    if type(a) is Sc and type(b) is Sc:
        if a.t == 'f64':
            return it.truth(it.fbinop('Eq', a, b))
        return it.truth(it.binop('Eq', a, b))
    if type(a) is Agg and type(b) is Agg:
        if a.variant != b.variant or len(a.fields) != len(b.fields):
            return False
        return all(values_equal(it, x, y, fr) for x, y in zip(a.fields, b.fields))
    if type(a) is VecV and type(b) is VecV:
        return len(a.buf) == len(b.buf) and all(values_equal(it, x, y, fr) for x, y in zip(a.buf, b.buf))
    if type(a) is StrV and type(b) is StrV:
        return a.s == b.s
    if type(a) is BoxV and type(b) is BoxV:
        return values_equal(it, a.cell[0], b.cell[0], fr)
    raise Unsupported('equality of %r and %r' % (a, b))


def map_find(it, m, key, fr):
    for i, (k, v) in enumerate(m.items):
        if values_equal(it, k, key, fr):
            return i
    return -1


def map_insert(it, m, key, val, fr):
    i = map_find(it, m, key, fr)
    if i >= 0:
        old = m.items[i][1]
        m.items[i] = (m.items[i][0], val)
        return old
    m.items.append((key, val))
    return None


def _deref_map(x):
    while type(x) is Ref:
        x = x.cont[x.key]
    if type(x) is MapV:
        return x
    raise Unsupported('expected map, got %r' % (x,))


@model('HashMap::new', 'std::collections::HashMap::new', 'HashMap::with_capacity', 'BTreeMap::new')
def m_hashmap_new(it, args, fr, callee):
    return MapV('map')


@model('HashSet::new', 'std::collections::HashSet::new', 'HashSet::with_capacity', 'BTreeSet::new')
def m_hashset_new(it, args, fr, callee):
    return MapV('set')


@tmodel('HashMap', 'Default', 'default')
def m_hashmap_default(it, args, fr, callee):
    return MapV('map')


@tmodel('HashSet', 'Default', 'default')
def m_hashset_default(it, args, fr, callee):
    return MapV('set')


@tmodel('HashSet', 'From', 'from')
def m_hashset_from_array(it, args, fr, callee):
    a = args[0]
    if type(a) is Agg and a.ty == 'array':
        m = MapV('set')
        for x in a.fields:
            map_insert(it, m, x, UNIT, fr)
        return m
    return NotImplemented


@model('HashMap::insert', 'std::collections::HashMap::insert', 'BTreeMap::insert')
def m_hashmap_insert(it, args, fr, callee):
    old = map_insert(it, _deref_map(args[0]), args[1], args[2], fr)
    return none() if old is None else some(old)


@model('HashSet::insert', 'std::collections::HashSet::insert', 'BTreeSet::insert')
def m_hashset_insert(it, args, fr, callee):
    m = _deref_map(args[0])
    i = map_find(it, m, args[1], fr)
    if i >= 0:
        return Sc('bool', 0)
    m.items.append((args[1], UNIT))
    return Sc('bool', 1)


@model('HashMap::get', 'std::collections::HashMap::get', 'HashMap::get_mut', 'BTreeMap::get', 'BTreeMap::get_mut')
def m_hashmap_get(it, args, fr, callee):
    m = _deref_map(args[0])
    i = map_find(it, m, args[1], fr)
    if i < 0:
        return none()
    cell = [m.items[i][1]]
    # a reference into the entry: writes through it must update the entry
    return some(EntryRef(m, i))


def EntryRef(m, i):
    """pointer to the value of map entry i (cont/key protocol via a proxy list)"""
    return Ref(_EntryProxy(m, i), 0)


class _EntryProxy(object):
    __slots__ = ('m', 'i')

    def __init__(self, m, i):
        self.m, self.i = m, i

    def __getitem__(self, k):
        return self.m.items[self.i][1]

    def __setitem__(self, k, v):
        self.m.items[self.i] = (self.m.items[self.i][0], v)

    def __len__(self):
        return 1


@model('HashMap::contains_key', 'HashSet::contains', 'BTreeMap::contains_key', 'BTreeSet::contains')
def m_hashmap_contains(it, args, fr, callee):
    return Sc('bool', int(map_find(it, _deref_map(args[0]), args[1], fr) >= 0))


@model('HashMap::remove', 'BTreeMap::remove')
def m_hashmap_remove(it, args, fr, callee):
    m = _deref_map(args[0])
    i = map_find(it, m, args[1], fr)
    if i < 0:
        return none()
    return some(m.items.pop(i)[1])


@model('HashMap::len', 'HashSet::len', 'BTreeMap::len', 'BTreeSet::len')
def m_hashmap_len(it, args, fr, callee):
    return Sc('usize', len(_deref_map(args[0]).items))


@tmodel('HashSet', 'IntoIterator', 'into_iter')
@tmodel('HashMap', 'IntoIterator', 'into_iter')
def m_hash_into_iter(it, args, fr, callee):
    m = _deref_map(args[0])
    order = list(m.items)
    perm = getattr(it, 'hash_order', None)
    if perm is not None:
        order = perm(order)
    if m.kind == 'set':
        return IterV(iter([k for k, _ in order]), 'hashset.into_iter')
    return IterV(iter([Agg('tuple', None, [k, v]) for k, v in order]), 'hashmap.into_iter')


# =================================================================================================
# Rc / RefCell / Arc / Mutex as identity wrappers
# =================================================================================================
class RcV(object):
    __slots__ = ('cell',)

    def __init__(self, v):
        self.cell = [v]

    def deref_place(self):
        return (self.cell, 0)

    def __repr__(self):
        return 'Rc(%r)' % (self.cell[0],)


class RefCellV(object):
    __slots__ = ('cell', 'borrow')

    def __init__(self, v):
        self.cell = [v]
        self.borrow = 0

    def __repr__(self):
        return 'RefCell(%r)' % (self.cell[0],)


@model('Arc::clone', 'Rc::clone', 'std::sync::Arc::clone', 'std::rc::Rc::clone')
def m_rc_clone_inherent(it, args, fr, callee):
    return _deref_arg(args[0])


@tmodel('str', 'ToString', 'to_string')
@tmodel('str', 'ToOwned', 'to_owned')
@tmodel('String', 'From', 'from')
def m_str_to_string(it, args, fr, callee):
    return _deref_all(args[0])


@model('Rc::new', 'std::rc::Rc::new', 'Arc::new', 'std::sync::Arc::new')
def m_rc_new(it, args, fr, callee):
    return RcV(args[0])


@model('RefCell::new', 'std::cell::RefCell::new', 'Mutex::new', 'std::sync::Mutex::new')
def m_refcell_new(it, args, fr, callee):
    return RefCellV(args[0])


@tmodel('Rc', 'Clone', 'clone')
@tmodel('Arc', 'Clone', 'clone')
def m_rc_clone(it, args, fr, callee):
    return _deref_arg(args[0])


@tmodel('Rc', 'Deref', 'deref')
@tmodel('Arc', 'Deref', 'deref')
def m_rc_deref(it, args, fr, callee):
    rc = _deref_arg(args[0])
    return Ref(rc.cell, 0)


@model('RefCell::borrow', 'std::cell::RefCell::borrow', 'RefCell::borrow_mut', 'std::cell::RefCell::borrow_mut')
def m_refcell_borrow(it, args, fr, callee):
    rc = _deref_arg(args[0])
    if type(rc) is RcV:
        rc = rc.cell[0]
    return GuardV(rc)


class GuardV(object):
    """cell::Ref / RefMut / MutexGuard"""
    __slots__ = ('rc',)

    def __init__(self, rc):
        self.rc = rc

    def deref_place(self):
        return (self.rc.cell, 0)


@tmodel('Ref', 'Deref', 'deref')
@tmodel('RefMut', 'Deref', 'deref')
@tmodel('RefMut', 'DerefMut', 'deref_mut')
@tmodel('MutexGuard', 'Deref', 'deref')
@tmodel('MutexGuard', 'DerefMut', 'deref_mut')
def m_guard_deref(it, args, fr, callee):
    g = _deref_arg(args[0])
    return Ref(g.rc.cell, 0)


@model('Mutex::lock', 'std::sync::Mutex::lock')
def m_mutex_lock(it, args, fr, callee):
    rc = _deref_arg(args[0])
    if type(rc) is RcV:
        rc = rc.cell[0]
    return ok(GuardV(rc))


# generic Clone / Default / PartialEq on plain data ------------------------------------------------------
@tmodel('*', 'Clone', 'clone')
def m_clone(it, args, fr, callee):
    v = _deref_arg(args[0])
    if type(v) in (Sc, Agg, VecV, BoxV, StrV, FnV, MapV, SlotMapV):
        # user types with hand-written Clone would be found in MIR first only if resolution preferred it;
        # derive(Clone) output is structurally this.
        return clone_val(v)
    if type(v) is RcV:
        return v
    return NotImplemented


def _deref_all(x):
    while type(x) is Ref:
        x = x.cont[x.key]
    return x


@tmodel('*', 'PartialEq', 'eq')
def m_partial_eq(it, args, fr, callee):
    a, b = _deref_all(args[0]), _deref_all(args[1])
    if type(a) is Sc and type(b) is Sc:
        return it.fbinop('Eq', a, b) if a.t == 'f64' else it.binop('Eq', a, b)
    if type(a) is StrV and type(b) is StrV:
        return Sc('bool', int(a.s == b.s))
    return NotImplemented


@tmodel('*', 'PartialEq', 'ne')
def m_partial_ne(it, args, fr, callee):
    a, b = _deref_all(args[0]), _deref_all(args[1])
    if type(a) is Sc and type(b) is Sc:
        return it.fbinop('Ne', a, b) if a.t == 'f64' else it.binop('Ne', a, b)
    return NotImplemented


@tmodel('Vec', 'PartialEq', 'eq')
def m_vec_eq(it, args, fr, callee):
    """Vec<T> == Vec<T>: element-wise through the element type's own PartialEq (MIR if user-defined)"""
    a, b = deref_vec(args[0]), deref_vec(args[1])
    if len(a.buf) != len(b.buf):
        return Sc('bool', 0)
    end = match_close(callee, 0)
    inner = callee[1:end]
    k = _top_as(inner)
    selft = it.subst(inner[:k].strip(), fr)
    elem = last_generics(split_path(strip_ref(selft))[-1])
    et = elem[0] if elem else '_'
    for i in range(len(a.buf)):
        r = it.call('<%s as PartialEq>::eq' % et, [Ref(a.buf, i), Ref(b.buf, i)], fr)
        if not it.truth(r):
            return Sc('bool', 0)
    return Sc('bool', 1)


@tmodel('Box', 'PartialEq', 'eq')
def m_box_eq(it, args, fr, callee):
    a, b = _deref_arg(args[0]), _deref_arg(args[1])
    end = match_close(callee, 0)
    inner = callee[1:end]
    k = _top_as(inner)
    selft = it.subst(inner[:k].strip(), fr)
    elem = last_generics(split_path(strip_ref(selft))[-1])
    et = elem[0] if elem else '_'
    return it.call('<%s as PartialEq>::eq' % et, [Ref(a.cell, 0), Ref(b.cell, 0)], fr)


@tmodel('Box', 'Deref', 'deref')
@tmodel('Box', 'DerefMut', 'deref_mut')
@tmodel('Box', 'AsRef', 'as_ref')
def m_box_deref(it, args, fr, callee):
    b = _deref_arg(args[0])
    return Ref(b.cell, 0)


@tmodel('*', 'Default', 'default')
def m_default(it, args, fr, callee):
    end = match_close(callee, 0)
    inner = callee[1:end]
    k = _top_as(inner)
    t = it.subst(inner[:k].strip(), fr)
    if t in INT_W:
        return Sc(t, 0)
    if t == 'f64':
        return Sc('f64', 0)
    if t == '()':
        return UNIT
    h = type_head(t)
    if h == 'Vec':
        return VecV([])
    if h == 'Option':
        return none()
    if h in ('HashMap', 'BTreeMap'):
        return MapV('map')
    if h in ('HashSet', 'BTreeSet'):
        return MapV('set')
    if h == 'SlotMap':
        return SlotMapV()
    if h == 'BinaryHeap':
        return HeapV()
    if h in ('Arc', 'Rc'):
        inner = last_generics(split_path(t)[-1])[0]
        return RcV(it.call('<%s as Default>::default' % inner, [], fr))
    if h in ('Mutex', 'RefCell'):
        inner = last_generics(split_path(t)[-1])[0]
        return RefCellV(it.call('<%s as Default>::default' % inner, [], fr))
    return NotImplemented


@model('half::f16::to_f64', 'f16::to_f64', 'half::binary16::f16::to_f64')
def m_f16_to_f64(it, args, fr, callee):
    a = args[0]
    if type(a) is Sc and a.t == 'f64':
        return a          # the driver stores HFloat immediates pre-widened (exact) as f64 bits
    raise Unsupported('f16::to_f64 of %r' % (a,))


# =================================================================================================
# slotmap 1.0.7 (SlotMap<DefaultKey, V>): slots/free-list/version semantics copied from basic.rs
# =================================================================================================
def _deref_slotmap(x):
    while type(x) is Ref:
        x = x.cont[x.key]
    if type(x) is SlotMapV:
        return x
    raise Unsupported('expected SlotMap, got %r' % (x,))


def _key_parts(it, k):
    """DefaultKey / ClosureIdx / KeyData Agg -> (idx, version) concrete ints"""
    while type(k) is Ref:
        k = k.cont[k.key]
    while type(k) is Agg and k.ty != 'KeyData':
        k = k.fields[0]
    if type(k) is Sc:
        v = it.concretize(k, 'slotmap key')
        return v & 0xffffffff, (v >> 32) & 0xffffffff
    idx = it.concretize(k.fields[0], 'slotmap key index')
    ver = it.concretize(k.fields[1], 'slotmap key version')
    return idx, ver


def _mk_key(idx, ver):
    return Agg('DefaultKey', None, [Agg('KeyData', None, [Sc('u32', idx), Sc('u32', ver)])])


@model('SlotMap::new', 'SlotMap::with_key', 'slotmap::SlotMap::new', 'slotmap::SlotMap::with_key')
def m_sm_new(it, args, fr, callee):
    return SlotMapV()


@tmodel('SlotMap', 'Default', 'default')
def m_sm_default(it, args, fr, callee):
    return SlotMapV()


@tmodel('SlotMap', 'Clone', 'clone')
def m_sm_clone(it, args, fr, callee):
    return clone_val(_deref_slotmap(args[0]))


@model('SlotMap::insert', 'slotmap::SlotMap::insert')
def m_sm_insert(it, args, fr, callee):
    sm = _deref_slotmap(args[0])
    val = args[1]
    if sm.free_head < len(sm.slots):
        slot = sm.slots[sm.free_head]
        ver = slot[0] | 1
        idx = sm.free_head
        sm.free_head = slot[2]
        slot[1] = val
        slot[0] = ver
    else:
        idx = len(sm.slots)
        ver = 1
        sm.slots.append([ver, val, 0])
        sm.free_head = idx + 1
    sm.num_elems += 1
    return _mk_key(idx, ver)


def _sm_slot(it, sm, k):
    idx, ver = _key_parts(it, k)
    if idx < len(sm.slots) and sm.slots[idx][0] == ver and (ver & 1):
        return sm.slots[idx]
    return None


@model('SlotMap::get', 'SlotMap::get_mut', 'slotmap::SlotMap::get', 'slotmap::SlotMap::get_mut')
def m_sm_get(it, args, fr, callee):
    sm = _deref_slotmap(args[0])
    slot = _sm_slot(it, sm, args[1])
    return none() if slot is None else some(Ref(slot, 1))


@model('SlotMap::get_unchecked', 'SlotMap::get_unchecked_mut', 'slotmap::SlotMap::get_unchecked', 'slotmap::SlotMap::get_unchecked_mut')
def m_sm_get_unchecked(it, args, fr, callee):
    sm = _deref_slotmap(args[0])
    slot = _sm_slot(it, sm, args[1])
    if slot is None:
        raise PanicReached('SlotMap::get_unchecked with a key that is not alive (use after free: undefined behaviour)', 'oob')
    return Ref(slot, 1)


@model('SlotMap::contains_key', 'slotmap::SlotMap::contains_key')
def m_sm_contains(it, args, fr, callee):
    sm = _deref_slotmap(args[0])
    return Sc('bool', int(_sm_slot(it, sm, args[1]) is not None))


@model('SlotMap::remove', 'slotmap::SlotMap::remove')
def m_sm_remove(it, args, fr, callee):
    sm = _deref_slotmap(args[0])
    idx, ver = _key_parts(it, args[1])
    slot = _sm_slot(it, sm, args[1])
    if slot is None:
        return none()
    val = slot[1]
    slot[1] = None
    slot[2] = sm.free_head
    sm.free_head = idx
    sm.num_elems -= 1
    slot[0] = (slot[0] + 1) & 0xffffffff
    return some(val)


@model('SlotMap::len', 'slotmap::SlotMap::len')
def m_sm_len(it, args, fr, callee):
    return Sc('usize', _deref_slotmap(args[0]).num_elems)


@model('SlotMap::values', 'slotmap::SlotMap::values')
def m_sm_values(it, args, fr, callee):
    sm = _deref_slotmap(args[0])
    return IterV((Ref(s, 1) for s in sm.slots[1:] if s[0] & 1), 'slotmap.values')


@tmodel('SlotMap', 'Index', 'index')
@tmodel('SlotMap', 'IndexMut', 'index_mut')
def m_sm_index(it, args, fr, callee):
    sm = _deref_slotmap(args[0])
    slot = _sm_slot(it, sm, args[1])
    if slot is None:
        raise PanicReached('invalid SlotMap key used', 'panic')
    return Ref(slot, 1)


@model('KeyData::from_ffi', 'slotmap::KeyData::from_ffi')
def m_kd_from_ffi(it, args, fr, callee):
    v = args[0].v
    if isinstance(v, int):
        return Agg('KeyData', None, [Sc('u32', v & 0xffffffff), Sc('u32', ((v >> 32) | 1) & 0xffffffff)])
    return Agg('KeyData', None, [Sc('u32', z3.Extract(31, 0, v)), Sc('u32', z3.Extract(63, 32, v) | 1)])


@model('KeyData::as_ffi', 'slotmap::KeyData::as_ffi')
def m_kd_as_ffi(it, args, fr, callee):
    k = args[0]
    while type(k) is Ref:
        k = k.cont[k.key]
    return it.flatten_word(k)


@tmodel('DefaultKey', 'Key', 'data')
def m_key_data(it, args, fr, callee):
    k = args[0]
    while type(k) is Ref:
        k = k.cont[k.key]
    return copy_val(k.fields[0])


@tmodel('DefaultKey', 'Default', 'default')
def m_defaultkey_default(it, args, fr, callee):
    # slotmap: Key::null() = KeyData { idx: u32::MAX, version: 1 }
    return Agg('DefaultKey', None, [Agg('KeyData', None, [Sc('u32', 0xffffffff), Sc('u32', 1)])])


@tmodel('DefaultKey', 'From', 'from')
def m_key_from(it, args, fr, callee):
    return Agg('DefaultKey', None, [args[0]])


# `?` operator ----------------------------------------------------------------------------------------
@tmodel('Option', 'Try', 'branch')
def m_opt_branch(it, args, fr, callee):
    o = args[0]
    if o.variant == 1:
        return Agg('ControlFlow', 0, [o.fields[0]])
    return Agg('ControlFlow', 1, [none()])


@tmodel('Option', 'FromResidual', 'from_residual')
def m_opt_from_residual(it, args, fr, callee):
    return none()


@tmodel('Result', 'Try', 'branch')
def m_res_branch(it, args, fr, callee):
    o = args[0]
    if o.variant == 0:
        return Agg('ControlFlow', 0, [o.fields[0]])
    return Agg('ControlFlow', 1, [err(o.fields[0])])


@tmodel('Result', 'FromResidual', 'from_residual')
def m_res_from_residual(it, args, fr, callee):
    return args[0]


@model('HashSet::is_empty', 'HashMap::is_empty', 'BTreeMap::is_empty', 'BTreeSet::is_empty')
def m_hash_is_empty(it, args, fr, callee):
    return Sc('bool', int(len(_deref_map(args[0]).items) == 0))


@model('HashSet::iter', 'HashMap::keys', 'BTreeSet::iter')
def m_hashset_iter(it, args, fr, callee):
    m = _deref_map(args[0])
    order = list(range(len(m.items)))
    perm = getattr(it, 'hash_order', None)
    if perm is not None:
        order = perm(order)
    return IterV((Ref(_KeyProxy(m, i), 0) for i in order), 'hashset.iter')


class _KeyProxy(object):
    __slots__ = ('m', 'i')

    def __init__(self, m, i):
        self.m, self.i = m, i

    def __getitem__(self, k):
        return self.m.items[self.i][0]

    def __setitem__(self, k, v):
        raise Unsupported('write through a hash set element reference')

    def __len__(self):
        return 1


@tmodel('HashSet', 'Extend', 'extend')
def m_hashset_extend(it, args, fr, callee):
    m = _deref_map(args[0])
    for x in to_iter(it, args[1], fr).gen:
        if map_find(it, m, x, fr) < 0:
            m.items.append((x, UNIT))
    return UNIT


@tmodel('HashMap', 'Extend', 'extend')
def m_hashmap_extend(it, args, fr, callee):
    m = _deref_map(args[0])
    for x in to_iter(it, args[1], fr).gen:
        map_insert(it, m, x.fields[0], x.fields[1], fr)
    return UNIT


@tmodel('HashSet', 'Clone', 'clone')
@tmodel('HashMap', 'Clone', 'clone')
def m_hash_clone(it, args, fr, callee):
    return clone_val(_deref_map(args[0]))


@model('std::ops::RangeInclusive::new', 'RangeInclusive::new', 'core::ops::RangeInclusive::new')
def m_range_incl_new(it, args, fr, callee):
    return Agg('RangeInclusive', None, [args[0], args[1], Sc('bool', 0)])


@model('core::slice::reverse', 'slice::reverse')
def m_slice_reverse(it, args, fr, callee):
    s = as_slice(args[0])
    st = it.concretize(Sc('usize', s.start), 'slice start')
    ln = it.concretize(Sc('usize', s.len), 'slice length')
    s.buf[st:st + ln] = s.buf[st:st + ln][::-1]
    return UNIT


# arithmetic operator traits on (references to) integers: same overflow behaviour as the MIR binops in the dev profile
def _arith_trait(opname, mirop):
    def f(it, args, fr, callee):
        a, b = _deref_all(args[0]), _deref_all(args[1])
        if type(a) is not Sc or type(b) is not Sc or a.t not in INT_W:
            return NotImplemented
        r = it.binop(mirop + 'WithOverflow', a, b)
        ov = r.fields[1].v
        if isinstance(ov, int):
            if ov:
                raise PanicReached('attempt to %s with overflow' % opname, 'assert')
        else:
            it.require(ov == 0, 'attempt to %s with overflow' % opname, 'assert')
        return r.fields[0]
    return f


TRAIT_MODELS[('*', 'Add', 'add')] = _arith_trait('add', 'Add')
TRAIT_MODELS[('*', 'Sub', 'sub')] = _arith_trait('subtract', 'Sub')
TRAIT_MODELS[('*', 'Mul', 'mul')] = _arith_trait('multiply', 'Mul')


# =================================================================================================
# BinaryHeap (max-heap) ordered by calling the element type's own Ord::cmp (MIR for user types), mpsc channel
# =================================================================================================
class HeapV(object):
    __slots__ = ('items', 'elem_ty')

    def __init__(self):
        self.items = []
        self.elem_ty = None


class ChanV(object):
    __slots__ = ('queue', 'cap')

    def __init__(self, cap=None):
        self.queue = []
        self.cap = cap          # None: unbounded mpsc::channel; n: mpsc::sync_channel(n)


def _deref_obj(x, cls):
    while type(x) is Ref:
        x = x.cont[x.key]
    if type(x) is cls:
        return x
    raise Unsupported('expected %s, got %r' % (cls.__name__, x))


def _heap_elem_ty(it, callee, fr):
    segs = split_path(callee)
    for sg in segs:
        g = last_generics(sg)
        if g and ('BinaryHeap' in sg or sg.startswith('<')):
            return it.subst(g[0], fr)
    for sg in segs:
        if sg.startswith('<') and not sg.startswith('<impl'):
            g = last_generics(sg)
            if g:
                return it.subst(g[0], fr)
    return None


def elem_cmp(it, ty, a_ref, b_ref, fr):
    """Ordering variant index (0 Less, 1 Equal, 2 Greater) of *a_ref vs *b_ref by <ty as Ord>::cmp"""
    ty = ty.strip()
    h = type_head(ty)
    if h == 'Reverse':
        inner = last_generics(split_path(ty)[-1])[0]
        a, b = a_ref.cont[a_ref.key], b_ref.cont[b_ref.key]
        return elem_cmp(it, inner, Ref(b.fields, 0), Ref(a.fields, 0), fr)
    r = it.call('<%s as Ord>::cmp' % ty, [a_ref, b_ref], fr)
    return r.variant


def _heap_le(it, hp, a, b, fr):
    """hp.items[a] <= hp.items[b] by the element type's Ord"""
    return elem_cmp(it, hp.elem_ty, Ref(hp.items, a), Ref(hp.items, b), fr) != 2


def _heap_sift_up(it, hp, start, pos, fr):
    # std: while pos > start { parent = (pos-1)/2; if hole.element() <= hole.get(parent) { break } move parent down }
    d = hp.items
    elem = d[pos]
    while pos > start:
        parent = (pos - 1) // 2
        d[pos] = elem          # the hole element is compared through the list
        if _heap_le(it, hp, pos, parent, fr):
            break
        d[pos] = d[parent]
        pos = parent
    d[pos] = elem
    return pos


def _heap_sift_down_to_bottom(it, hp, pos, fr):
    d = hp.items
    end = len(d)
    start = pos
    elem = d[pos]
    child = 2 * pos + 1
    while child <= max(end - 2, 0):      # end.saturating_sub(2)
        # child += (hole.get(child) <= hole.get(child + 1)) as usize
        if _heap_le(it, hp, child, child + 1, fr):
            child += 1
        d[pos] = d[child]
        pos = child
        child = 2 * pos + 1
    if child == end - 1:
        d[pos] = d[child]
        pos = child
    d[pos] = elem
    _heap_sift_up(it, hp, start, pos, fr)


@model('std::cmp::Ordering::then_with', 'core::cmp::Ordering::then_with', 'Ordering::then_with')
def m_ordering_then_with(it, args, fr, callee):
    o = args[0]
    if o.variant != 1:
        return o
    return it.call_value(args[1], [], fr)


@model('std::cmp::Ordering::then', 'core::cmp::Ordering::then', 'Ordering::then')
def m_ordering_then(it, args, fr, callee):
    return args[0] if args[0].variant != 1 else args[1]


# BTreeSet<T> of a user type: the MapV('set') list is kept in ascending order of <T as Ord>::cmp (the crate's own MIR), an element that
# compares Equal to one already present is NOT inserted (std: `insert` returns false and keeps the old one)
def _treeset_arg(it, args, fr, callee):
    st = args[0]
    while type(st) is Ref:
        st = st.cont[st.key]
    if type(st) is not MapV:
        raise Unsupported('BTreeSet method on %r' % (st,))
    ty = _heap_elem_ty(it, callee, fr)
    if ty is None:
        raise Unsupported('BTreeSet element type of %s' % callee[:80])
    return st, ty


@model('BTreeSet::insert', 'std::collections::BTreeSet::insert')
def m_treeset_insert(it, args, fr, callee):
    st, ty = _treeset_arg(it, args, fr, callee)
    if ty in INT_W or ty in ('f64', 'bool'):
        return m_hashset_insert(it, args, fr, callee)          # scalar elements: the generic set model
    x = args[1]
    pos = len(st.items)
    for i, (k, _) in enumerate(st.items):
        c = elem_cmp(it, ty, Ref([x], 0), Ref([k], 0), fr)
        if c == 1:
            return Sc('bool', 0)
        if c == 0 and pos == len(st.items):
            pos = i
    st.items.insert(pos, (x, UNIT))
    return Sc('bool', 1)


@model('BTreeSet::first', 'std::collections::BTreeSet::first')
def m_treeset_first(it, args, fr, callee):
    st, ty = _treeset_arg(it, args, fr, callee)
    if not st.items:
        return none()
    return some(Ref([st.items[0][0]], 0))


@model('BTreeSet::pop_first', 'std::collections::BTreeSet::pop_first')
def m_treeset_pop_first(it, args, fr, callee):
    st, ty = _treeset_arg(it, args, fr, callee)
    if not st.items:
        return none()
    return some(st.items.pop(0)[0])


@model('BTreeSet::len', 'std::collections::BTreeSet::len')
def m_treeset_len(it, args, fr, callee):
    st, ty = _treeset_arg(it, args, fr, callee)
    return Sc('usize', len(st.items))


@model('BTreeSet::is_empty', 'std::collections::BTreeSet::is_empty')
def m_treeset_is_empty(it, args, fr, callee):
    st, ty = _treeset_arg(it, args, fr, callee)
    return Sc('bool', int(not st.items))


@model('BinaryHeap::new', 'std::collections::BinaryHeap::new')
def m_heap_new(it, args, fr, callee):
    return HeapV()


@tmodel('BinaryHeap', 'Default', 'default')
def m_heap_default(it, args, fr, callee):
    return HeapV()


def _heap_arg(it, args, fr, callee):
    hp = _deref_obj(args[0], HeapV)
    if hp.elem_ty is None:
        hp.elem_ty = _heap_elem_ty(it, callee, fr)
    return hp


@model('BinaryHeap::push', 'std::collections::BinaryHeap::push')
def m_heap_push(it, args, fr, callee):
    """std::collections::BinaryHeap::push: append, then sift_up(0, old_len) -- same array layout as the real heap"""
    hp = _heap_arg(it, args, fr, callee)
    old_len = len(hp.items)
    hp.items.append(args[1])
    _heap_sift_up(it, hp, 0, old_len, fr)
    return UNIT


@model('BinaryHeap::peek', 'std::collections::BinaryHeap::peek')
def m_heap_peek(it, args, fr, callee):
    hp = _heap_arg(it, args, fr, callee)
    if not hp.items:
        return none()
    return some(Ref(hp.items, 0))


@model('BinaryHeap::pop', 'std::collections::BinaryHeap::pop')
def m_heap_pop(it, args, fr, callee):
    """std: self.data.pop().map(|mut item| { if !self.is_empty() { swap(&mut item, &mut self.data[0]); sift_down_to_bottom(0) } item })"""
    hp = _heap_arg(it, args, fr, callee)
    if not hp.items:
        return none()
    item = hp.items.pop()
    if hp.items:
        item, hp.items[0] = hp.items[0], item
        _heap_sift_down_to_bottom(it, hp, 0, fr)
    return some(item)


@model('BinaryHeap::iter', 'std::collections::BinaryHeap::iter')
def m_heap_iter(it, args, fr, callee):
    hp = _heap_arg(it, args, fr, callee)
    items = hp.items
    return IterV((Ref(items, i) for i in range(len(items))), 'binaryheap.iter (array order)')


@model('BinaryHeap::clear', 'std::collections::BinaryHeap::clear')
def m_heap_clear(it, args, fr, callee):
    del _heap_arg(it, args, fr, callee).items[:]
    return UNIT


@model('BinaryHeap::len', 'std::collections::BinaryHeap::len')
def m_heap_len(it, args, fr, callee):
    return Sc('usize', len(_deref_obj(args[0], HeapV).items))


@model('BinaryHeap::is_empty', 'std::collections::BinaryHeap::is_empty')
def m_heap_is_empty(it, args, fr, callee):
    return Sc('bool', int(not _deref_obj(args[0], HeapV).items))


@model('std::sync::mpsc::channel', 'mpsc::channel', 'channel')
def m_channel(it, args, fr, callee):
    ch = ChanV()
    return Agg('tuple', None, [Agg('Sender', None, [ch]), Agg('Receiver', None, [ch])])


@model('Sender::send', 'std::sync::mpsc::Sender::send', 'mpsc::Sender::send')
def m_send(it, args, fr, callee):
    s = args[0]
    while type(s) is Ref:
        s = s.cont[s.key]
    s.fields[0].queue.append(args[1])
    return ok(UNIT)


@model('std::sync::mpsc::sync_channel', 'mpsc::sync_channel', 'sync_channel')
def m_sync_channel(it, args, fr, callee):
    cap = it.concretize(args[0], 'sync_channel capacity')
    ch = ChanV(cap)
    return Agg('tuple', None, [Agg('SyncSender', None, [ch]), Agg('Receiver', None, [ch])])


@model('SyncSender::try_send', 'std::sync::mpsc::SyncSender::try_send', 'mpsc::SyncSender::try_send')
def m_try_send(it, args, fr, callee):
    s = args[0]
    while type(s) is Ref:
        s = s.cont[s.key]
    ch = s.fields[0]
    if ch.cap is not None and len(ch.queue) >= ch.cap:
        return err(Agg('TrySendError', 0, [args[1]]))       # TrySendError::Full(t)
    ch.queue.append(args[1])
    return ok(UNIT)


@model('SyncSender::send', 'std::sync::mpsc::SyncSender::send', 'mpsc::SyncSender::send')
def m_sync_send(it, args, fr, callee):
    s = args[0]
    while type(s) is Ref:
        s = s.cont[s.key]
    ch = s.fields[0]
    if ch.cap is not None and len(ch.queue) >= ch.cap:
        raise Unsupported('SyncSender::send on a full bounded channel blocks (single-threaded model)')
    ch.queue.append(args[1])
    return ok(UNIT)


@model('Receiver::try_recv', 'std::sync::mpsc::Receiver::try_recv', 'mpsc::Receiver::try_recv')
def m_try_recv(it, args, fr, callee):
    r = args[0]
    while type(r) is Ref:
        r = r.cont[r.key]
    q = r.fields[0].queue
    if q:
        return ok(q.pop(0))
    return err(Agg('TryRecvError', 0, []))


@tmodel('Reverse', 'Ord', 'cmp')
def m_reverse_cmp(it, args, fr, callee):
    end = match_close(callee, 0)
    inner = callee[1:end]
    k = _top_as(inner)
    ty = it.subst(inner[:k].strip(), fr)
    v = elem_cmp(it, strip_ref(ty), args[0], args[1], fr)
    return Agg('Ordering', v, [])


# PartialOrd's provided methods (lt/le/gt/ge) in terms of the type's own partial_cmp (MIR for user types)
def _pord_default(name):
    accept = {'lt': (0,), 'le': (0, 1), 'gt': (2,), 'ge': (1, 2)}[name]
    mirop = {'lt': 'Lt', 'le': 'Le', 'gt': 'Gt', 'ge': 'Ge'}[name]

    def f(it, args, fr, callee):
        a, b = _deref_all(args[0]), _deref_all(args[1])
        if type(a) is Sc and type(b) is Sc:
            return it.fbinop(mirop, a, b) if a.t == 'f64' else it.binop(mirop, a, b)
        end = match_close(callee, 0)
        inner = callee[1:end]
        k = _top_as(inner)
        ty = strip_ref(it.subst(inner[:k].strip(), fr))
        r = it.call('<%s as PartialOrd>::partial_cmp' % ty, [args[0], args[1]], fr)
        if r.variant == 0:
            return Sc('bool', 0)
        return Sc('bool', int(r.fields[0].variant in accept))
    return f


for _n in ('lt', 'le', 'gt', 'ge'):
    TRAIT_MODELS[('*', 'PartialOrd', _n)] = _pord_default(_n)


@tmodel('*', 'PartialOrd', 'partial_cmp')
def m_partial_cmp_scalar(it, args, fr, callee):
    a, b = _deref_all(args[0]), _deref_all(args[1])
    if type(a) is Sc and type(b) is Sc and a.t in INT_W:
        return some(it.binop('Cmp', a, b))
    return NotImplemented


@tmodel('*', 'Drop', 'drop')
def m_drop_trait(it, args, fr, callee):
    return UNIT


class EntryV(object):
    __slots__ = ('m', 'key')

    def __init__(self, m, key):
        self.m, self.key = m, key


@model('HashMap::entry', 'std::collections::HashMap::entry', 'BTreeMap::entry')
def m_hashmap_entry(it, args, fr, callee):
    return EntryV(_deref_map(args[0]), args[1])


def _entry_slot(it, e, make, fr):
    i = map_find(it, e.m, e.key, fr)
    if i < 0:
        e.m.items.append((e.key, make()))
        i = len(e.m.items) - 1
    return EntryRef(e.m, i)


@model('Entry::or_insert_with', 'std::collections::hash_map::Entry::or_insert_with', 'hash_map::Entry::or_insert_with')
def m_entry_or_insert_with(it, args, fr, callee):
    return _entry_slot(it, args[0], lambda: it.call_value(args[1], [], fr), fr)


@model('Entry::or_insert', 'std::collections::hash_map::Entry::or_insert', 'hash_map::Entry::or_insert')
def m_entry_or_insert(it, args, fr, callee):
    return _entry_slot(it, args[0], lambda: args[1], fr)


@tmodel('*', 'TryInto', 'try_into')
def m_try_into(it, args, fr, callee):
    a = args[0]
    end = match_close(callee, 0)
    inner = callee[1:end]
    k = _top_as(inner)
    trait = inner[k + 4:].strip()
    targ = last_generics(trait)
    dst = it.subst(targ[0], fr) if targ else ''
    m = re.match(r'^\[(.*); *(\w+)\]$', dst.strip())
    if m and type(a) in (Slice, Ref, VecV):
        n = m.group(2)
        n = int(n) if n.isdigit() else it.eval_count(n, fr)
        s = as_slice(a)
        items = slice_items(it, s)
        if len(items) != n:
            return err(Opaque('TryFromSliceError'))
        return ok(Agg('array', None, [copy_val(x) for x in items]))
    if type(a) is Sc and dst in INT_W:
        return m_try_from(it, args, fr, '<%s as TryFrom<%s>>::try_from' % (dst, a.t))
    return NotImplemented


@model('Option::ok_or_else', 'std::option::Option::ok_or_else')
def m_opt_ok_or_else(it, args, fr, callee):
    o, f = args
    if o.variant == 1:
        return ok(o.fields[0])
    return err(it.call_value(f, [], fr))


@model('Result::unwrap_or_else', 'std::result::Result::unwrap_or_else')
def m_res_unwrap_or_else(it, args, fr, callee):
    o, f = args
    if o.variant == 0:
        return o.fields[0]
    return it.call_value(f, [o.fields[0]], fr)


@model('Result::and_then', 'std::result::Result::and_then')
def m_res_and_then(it, args, fr, callee):
    o, f = args
    if o.variant == 1:
        return o
    return it.call_value(f, [o.fields[0]], fr)


@model('Result::is_ok', 'Result::is_err')
def m_res_is_ok(it, args, fr, callee):
    o = _deref_arg(args[0])
    return Sc('bool', int((o.variant == 0) == callee.endswith('is_ok')))


@_int_method('to_ne_bytes')
def m_to_ne_bytes(it, args, fr, callee):
    from wasmsym.hostwasm import byte_of
    w = args[0]
    return Agg('array', None, [byte_of(it, Sc(w.t, w.v), k) for k in range(INT_W[w.t] // 8)])


@_int_method('from_ne_bytes')
def m_from_ne_bytes(it, args, fr, callee):
    from wasmsym.hostwasm import join_bytes
    m = re.search(r'impl (u\d+|i\d+|usize|isize)', callee)
    t = m.group(1) if m else 'u64'
    return Sc(t, join_bytes(it, args[0].fields))


@_int_method('saturating_mul')
def m_sat_mul(it, args, fr, callee):
    a, b = args
    t = a.t
    w = INT_W[t]
    if t in SIGNED:
        raise Unsupported('signed saturating_mul')
    if isinstance(a.v, int) and isinstance(b.v, int):
        return Sc(t, min(mask(w), a.v * b.v))
    r = it.binop('MulWithOverflow', a, b)
    return Sc(t, z3.If(it.bv(r.fields[1]) == 1, z3.BitVecVal(mask(w), w), it.bv(r.fields[0])))


@model('core::str::starts_with', 'str::starts_with')
def m_str_starts_with(it, args, fr, callee):
    s, p = _deref_all(args[0]), _deref_all(args[1])
    if type(s) is StrV and type(p) is StrV:
        return Sc('bool', int(s.s.startswith(p.s)))
    raise Unsupported('str::starts_with on %r' % (s,))


@model('std::string::String::as_str', 'String::as_str', 'alloc::string::String::as_str')
def m_string_as_str(it, args, fr, callee):
    s = _deref_all(args[0])
    if type(s) is StrV:
        return s
    raise Unsupported('String::as_str on %r' % (s,))


@tmodel('String', 'Deref', 'deref')
def m_string_deref(it, args, fr, callee):
    s = _deref_all(args[0])
    if type(s) is StrV:
        return s
    raise Unsupported('String::deref on %r' % (s,))


@tmodel('Cow', 'Deref', 'deref')
@tmodel('PathBuf', 'Deref', 'deref')
@tmodel('PathBuf', 'Clone', 'clone')
@tmodel('String', 'Clone', 'clone')
def m_opaque_clone(it, args, fr, callee):
    return _deref_all(args[0])


@model('core::str::strip_prefix', 'str::strip_prefix')
def m_str_strip_prefix(it, args, fr, callee):
    s, p = _deref_all(args[0]), _deref_all(args[1])
    if type(s) is StrV and type(p) is StrV:
        return some(StrV(s.s[len(p.s):])) if s.s.startswith(p.s) else none()
    raise Unsupported('str::strip_prefix')


@model('core::str::parse', 'str::parse')
def m_str_parse(it, args, fr, callee):
    # `"3".parse::<usize>()` on a concrete string (e.g. the arity suffix of `split_head$arity3` in the generated runtime)
    s = _deref_all(args[0])
    g = last_generics(split_path(callee)[-1])
    ty = it.subst(g[0], fr) if g else ''
    if type(s) is StrV and ty in ('usize', 'u64', 'u32', 'u16', 'u8'):
        txt = s.s[1:] if s.s.startswith('+') else s.s
        if txt.isdigit() and int(txt) <= mask(INT_W[ty]):
            return ok(Sc(ty, int(txt)))
        return err(Opaque('ParseIntError'))
    raise Unsupported('str::parse::<%s> on %r' % (ty, s))


# float classification predicates ------------------------------------------------------------------------
def _fpred(name, conc, sym):
    def f(it, args, fr, callee):
        x = args[0].v
        if isinstance(x, int):
            return Sc('bool', int(bool(conc(x))))
        return Sc('bool', _b2bv(sym(x)))
    for pre in ('core::f64::', 'f64::', 'std::f64::'):
        MODELS[pre + name] = f


def _is_subnormal_bits(b):
    e = (b >> 52) & 0x7ff
    return e == 0 and (b & ((1 << 52) - 1)) != 0


_fpred('is_subnormal', _is_subnormal_bits, lambda x: z3.fpIsSubnormal(x))
_fpred('is_normal', lambda b: 0 < ((b >> 52) & 0x7ff) < 0x7ff, lambda x: z3.fpIsNormal(x))
_fpred('is_sign_negative', lambda b: b >> 63, lambda x: z3.fpIsNegative(x))
_fpred('is_sign_positive', lambda b: not (b >> 63), lambda x: z3.Not(z3.fpIsNegative(x)))


@model('core::f64::copysign', 'f64::copysign', 'std::f64::copysign')
def m_copysign(it, args, fr, callee):
    a, b = it.smt.fp_to_bits(args[0].v), it.smt.fp_to_bits(args[1].v)
    if isinstance(a, int) and isinstance(b, int):
        return Sc('f64', (a & mask(63)) | (b & (1 << 63)))
    A = z3.BitVecVal(a, 64) if isinstance(a, int) else a
    B = z3.BitVecVal(b, 64) if isinstance(b, int) else b
    return Sc('f64', it.smt.fp_from_bits(z3.Concat(z3.Extract(63, 63, B), z3.Extract(62, 0, A))))


@model('core::f64::signum', 'f64::signum', 'std::f64::signum')
def m_signum(it, args, fr, callee):
    x = args[0].v
    if isinstance(x, int):
        f = S.b2f(x)
        return Sc('f64', x if f != f else S.f2b(-1.0 if (x >> 63) else 1.0))
    one, mone = it.smt.fpval(S.f2b(1.0)), it.smt.fpval(S.f2b(-1.0))
    return Sc('f64', z3.If(z3.fpIsNaN(x), x, z3.If(z3.fpIsNegative(x), mone, one)))


@model('core::f64::mul_add', 'f64::mul_add', 'std::f64::mul_add')
def m_mul_add(it, args, fr, callee):
    a, b, c = [it.smt.fp_lift(x.v) for x in args]
    return Sc('f64', z3.simplify(z3.fpFMA(S.RNE, a, b, c)) if all(isinstance(x.v, int) for x in args) else z3.fpFMA(S.RNE, a, b, c))


@model('core::f64::recip', 'f64::recip', 'std::f64::recip')
def m_recip(it, args, fr, callee):
    return it.fbinop('Div', Sc('f64', S.f2b(1.0)), args[0])


@model('core::f64::fract', 'f64::fract', 'std::f64::fract')
def m_fract(it, args, fr, callee):
    t = MODELS['f64::trunc'](it, args, fr, callee)
    return it.fbinop('Sub', args[0], t)


@model('core::f64::rem_euclid', 'f64::rem_euclid', 'std::f64::rem_euclid')
def m_rem_euclid(it, args, fr, callee):
    r = it.fbinop('Rem', args[0], args[1])
    neg = it.fbinop('Lt', r, Sc('f64', 0))
    if it.truth(neg):
        return it.fbinop('Add', r, MODELS['f64::abs'](it, [args[1]], fr, callee))
    return r


@tmodel('*', 'Iterator', 'take_while')
def m_iter_take_while(it, args, fr, callee):
    src = _iter_arg(it, args[0], fr)
    f = args[1]

    def gen():
        for x in src.gen:
            cell = [x]
            if not it.truth(it.call_value(f, [Ref(cell, 0)], fr)):
                return
            yield cell[0]
    return IterV(gen(), 'take_while')


@tmodel('*', 'Iterator', 'skip_while')
def m_iter_skip_while(it, args, fr, callee):
    src = _iter_arg(it, args[0], fr)
    f = args[1]

    def gen():
        skipping = True
        for x in src.gen:
            cell = [x]
            if skipping and it.truth(it.call_value(f, [Ref(cell, 0)], fr)):
                continue
            skipping = False
            yield cell[0]
    return IterV(gen(), 'skip_while')


@model('must_use', 'std::hint::must_use', 'core::hint::must_use', 'std::hint::black_box', 'core::hint::black_box')
def m_must_use(it, args, fr, callee):
    return args[0]
