"""Symbolic executor for wasmgen output (WebAssembly core-spec semantics of the opcodes wasmgen emits).

Shares the solver, the path explorer and the scalar helpers with mirsym; imported functions are dispatched to a
host object (hostwasm.py) which runs the MIR of the Rust host functions registered in runtime/wasm.rs.
"""
import z3
from mirsym.values import Sc
from mirsym.interp import Unsupported, PanicReached, _b2bv
from mirsym import smt as S
from mirsym.smt import mask, to_signed
from .wat import parse_num

PAGE = 65536


class Trap(PanicReached):
    def __init__(self, msg):
        PanicReached.__init__(self, 'wasm trap: ' + msg, 'trap')


class _Br(Exception):
    def __init__(self, depth):
        self.depth = depth


class _Return(Exception):
    pass


TYMAP = {'i32': 'u32', 'i64': 'u64', 'f64': 'f64'}


class Memory(object):
    """linear memory with concrete addresses: 8-byte cells keyed by aligned address; values are Sc('u64'|'f64')"""

    def __init__(self, pages, max_pages):
        self.pages = pages
        self.max_pages = max_pages
        self.cells = {}

    def size_bytes(self):
        return self.pages * PAGE

    def check(self, addr, n):
        if addr < 0 or addr + n > self.size_bytes():
            raise Trap('out of bounds memory access at %d (+%d), memory size %d' % (addr, n, self.size_bytes()))

    def load64(self, addr):
        self.check(addr, 8)
        if addr % 8 == 0:
            return self.cells.get(addr, Sc('u64', 0))
        raise Unsupported('unaligned 64-bit wasm memory access at %d' % addr)

    def store64(self, addr, v):
        self.check(addr, 8)
        if addr % 8 != 0:
            raise Unsupported('unaligned 64-bit wasm memory access at %d' % addr)
        self.cells[addr] = v


class Instance(object):
    def __init__(self, module, it, host):
        self.m = module
        self.it = it              # mirsym Interp (solver, branching)
        self.smt = it.smt
        self.host = host
        self.mem = Memory(module.mem_pages[0], module.mem_pages[1])
        self.globals = [Sc(TYMAP[g[0]], g[2]) for g in module.globals]
        self.steps = 0
        self.step_limit = 2_000_000
        self.depth = 0
        self.funcs_used = {}
        for off, blob in module.data:
            blob = blob + b'\0' * ((-len(blob)) % 8)
            base = off - (off % 8)
            if off % 8:
                raise Unsupported('unaligned data segment')
            for i in range(0, len(blob), 8):
                self.mem.cells[base + i] = Sc('u64', int.from_bytes(blob[i:i + 8], 'little'))
        if host is not None:
            host.attach(self)

    # -- helpers ---------------------------------------------------------------------------------
    def as_bits64(self, v):
        if v.t == 'f64':
            return Sc('u64', self.smt.fp_to_bits(v.v))
        return v

    def as_f64(self, v):
        if v.t == 'f64':
            return v
        return Sc('f64', self.smt.fp_from_bits(v.v))

    def conc_addr(self, v, off):
        a = v.v
        if not isinstance(a, int):
            a2 = z3.simplify(a)
            if z3.is_bv_value(a2):
                a = a2.as_long()
            else:
                raise Unsupported('symbolic wasm memory address')
        return a + off

    def export_func(self, name):
        kind, ref = self.m.exports[name]
        assert kind == 'func'
        return self.m.by_name[ref] if ref.startswith('$') else int(ref)

    def export_global(self, name):
        kind, ref = self.m.exports[name]
        return int(ref)

    # -- calls -----------------------------------------------------------------------------------
    def call_export(self, name, args):
        return self.call_func(self.export_func(name), args)

    def call_func(self, idx, args):
        f = self.m.funcs[idx]
        if f.body is None:
            return self.host.call_import(self, f.import_mod, f.import_name, args, f)
        self.funcs_used[f.name or ('func%d' % idx)] = f.nlines
        if len(args) != len(f.params):
            raise Trap('call arity mismatch for %s' % f.name)
        locs = list(args) + [Sc(TYMAP[t], 0) for t in f.locals]
        stack = []
        self.depth += 1
        if self.depth > 300:
            raise Trap('call stack exhausted')
        try:
            try:
                self.run_seq(f.body, locs, stack)
            except _Return:
                pass
            except _Br as b:
                if b.depth != 0:
                    raise Unsupported('branch out of function')
        finally:
            self.depth -= 1
        n = len(f.results)
        return stack[len(stack) - n:] if n else []

    # -- interpreter -----------------------------------------------------------------------------
    def run_seq(self, seq, locs, stack):
        it = self.it
        for ins in seq:
            self.steps += 1
            it.smt.stats.stmts += 1
            if self.steps > self.step_limit:
                raise Unsupported('wasm step limit exceeded (possible non-termination)')
            op = ins[0]
            if len(ins) == 4:
                self.run_block(ins, locs, stack)
                continue
            parts = op.split('\x00')
            o = parts[0]
            if o == 'local.get':
                stack.append(locs[int(parts[1])])
            elif o == 'local.set':
                locs[int(parts[1])] = stack.pop()
            elif o == 'local.tee':
                locs[int(parts[1])] = stack[-1]
            elif o == 'global.get':
                stack.append(self.globals[int(parts[1])])
            elif o == 'global.set':
                self.globals[int(parts[1])] = stack.pop()
            elif o in ('i32.const', 'i64.const', 'f64.const'):
                ty = o[:3]
                stack.append(Sc(TYMAP[ty], parse_num(ty, parts[1])))
            elif o == 'call':
                tgt = parts[1]
                idx = self.m.by_name[tgt] if tgt.startswith('$') else int(tgt)
                f = self.m.funcs[idx]
                n = len(f.params)
                args = stack[len(stack) - n:] if n else []
                del stack[len(stack) - n:]
                stack.extend(self.call_func(idx, args))
            elif o == 'call_indirect':
                tidx = int([x for x in ins[1] if x[0] == 'type'][0][1])
                ei = stack.pop()
                e = self.conc_addr(ei, 0)
                if e not in self.m.table:
                    raise Trap('uninitialized / out of bounds table element %d' % e)
                idx = self.m.table[e]
                f = self.m.funcs[idx]
                if (f.params, f.results) != self.m.types[tidx]:
                    raise Trap('indirect call type mismatch')
                n = len(f.params)
                args = stack[len(stack) - n:] if n else []
                del stack[len(stack) - n:]
                stack.extend(self.call_func(idx, args))
            elif o == 'drop':
                stack.pop()
            elif o == 'select':
                c = stack.pop()
                b = stack.pop()
                a = stack.pop()
                stack.append(a if self.truth(c) else b)
            elif o == 'return':
                raise _Return()
            elif o == 'br':
                raise _Br(int(parts[1]))
            elif o == 'br_if':
                c = stack.pop()
                if self.truth(c):
                    raise _Br(int(parts[1]))
            elif o == 'br_table':
                c = stack.pop()
                tg = [int(x) for x in parts[1:]]
                v = c.v
                if isinstance(v, int):
                    raise _Br(tg[v] if v < len(tg) - 1 else tg[-1])
                for k in range(len(tg) - 1):
                    if it.branch(v == k):
                        raise _Br(tg[k])
                raise _Br(tg[-1])
            elif o == 'unreachable':
                raise Trap('unreachable executed')
            elif o == 'nop':
                pass
            elif o == 'memory.size':
                stack.append(Sc('u32', self.mem.pages))
            elif o == 'memory.grow':
                n = self.conc_addr(stack.pop(), 0)
                old = self.mem.pages
                if self.mem.max_pages is not None and old + n > self.mem.max_pages:
                    stack.append(Sc('u32', mask(32)))
                else:
                    self.mem.pages = old + n
                    stack.append(Sc('u32', old))
            elif '.load' in o or '.store' in o:
                self.mem_op(o, parts[1:], stack)
            else:
                self.numeric(o, stack)

    def run_block(self, ins, locs, stack):
        kind, imms, body, els = ins
        if kind == 'if':
            c = stack.pop()
            seq = body if self.truth(c) else (els or [])
            try:
                self.run_seq(seq, locs, stack)
            except _Br as b:
                if b.depth > 0:
                    raise _Br(b.depth - 1)
        elif kind == 'block':
            try:
                self.run_seq(body, locs, stack)
            except _Br as b:
                if b.depth > 0:
                    raise _Br(b.depth - 1)
        else:  # loop
            while True:
                try:
                    self.run_seq(body, locs, stack)
                    break
                except _Br as b:
                    if b.depth > 0:
                        raise _Br(b.depth - 1)
                    # br 0 on a loop: continue
                    continue

    def truth(self, c):
        v = c.v
        if isinstance(v, int):
            return v != 0
        return self.it.branch(v != 0)

    # -- memory ----------------------------------------------------------------------------------
    def mem_op(self, o, imms, stack):
        off = 0
        for im in imms:
            if im.startswith('offset='):
                off = int(im[7:])
        if o in ('f64.load', 'i64.load'):
            a = self.conc_addr(stack.pop(), off)
            v = self.mem.load64(a)
            stack.append(self.as_f64(v) if o[0] == 'f' else self.as_bits64(v))
        elif o in ('f64.store', 'i64.store'):
            v = stack.pop()
            a = self.conc_addr(stack.pop(), off)
            self.mem.store64(a, v)
        elif o == 'i32.load':
            a = self.conc_addr(stack.pop(), off)
            if a % 4:
                raise Unsupported('unaligned i32.load')
            self.mem.check(a, 4)
            cell = self.as_bits64(self.mem.cells.get(a - a % 8, Sc('u64', 0)))
            v = cell.v
            hi = (a % 8) == 4
            if isinstance(v, int):
                stack.append(Sc('u32', (v >> 32) & mask(32) if hi else v & mask(32)))
            else:
                stack.append(Sc('u32', z3.Extract(63, 32, v) if hi else z3.Extract(31, 0, v)))
        elif o == 'i32.store':
            val = stack.pop()
            a = self.conc_addr(stack.pop(), off)
            if a % 4:
                raise Unsupported('unaligned i32.store')
            self.mem.check(a, 4)
            base = a - a % 8
            cell = self.as_bits64(self.mem.cells.get(base, Sc('u64', 0)))
            hi = (a % 8) == 4
            if isinstance(cell.v, int) and isinstance(val.v, int):
                nv = (cell.v & mask(32)) | (val.v << 32) if hi else (cell.v & (mask(32) << 32)) | val.v
            else:
                C, V = self.it.bv(cell), self.it.bv(val)
                nv = z3.Concat(V, z3.Extract(31, 0, C)) if hi else z3.Concat(z3.Extract(63, 32, C), V)
            self.mem.cells[base] = Sc('u64', nv)
        else:
            raise Unsupported('wasm memory op %s' % o)

    # -- numeric ---------------------------------------------------------------------------------
    IBIN = {'add': 'AddUnchecked', 'sub': 'SubUnchecked', 'mul': 'MulUnchecked', 'and': 'BitAnd', 'or': 'BitOr', 'xor': 'BitXor',
            'shl': 'Shl', 'shr_u': 'Shr', 'shr_s': 'Shr', 'div_u': 'Div', 'div_s': 'Div', 'rem_u': 'Rem', 'rem_s': 'Rem'}
    ICMP = {'eq': ('Eq', 0), 'ne': ('Ne', 0), 'lt_u': ('Lt', 0), 'lt_s': ('Lt', 1), 'gt_u': ('Gt', 0), 'gt_s': ('Gt', 1),
            'le_u': ('Le', 0), 'le_s': ('Le', 1), 'ge_u': ('Ge', 0), 'ge_s': ('Ge', 1)}
    FBIN = {'add': 'Add', 'sub': 'Sub', 'mul': 'Mul', 'div': 'Div'}
    FCMP = {'eq': 'Eq', 'ne': 'Ne', 'lt': 'Lt', 'gt': 'Gt', 'le': 'Le', 'ge': 'Ge'}

    def numeric(self, o, stack):
        it = self.it
        ty, _, name = o.partition('.')
        if ty in ('i32', 'i64'):
            ut = 'u32' if ty == 'i32' else 'u64'
            st = 'i32' if ty == 'i32' else 'i64'
            w = 32 if ty == 'i32' else 64
            if name in self.IBIN:
                b = stack.pop()
                a = stack.pop()
                signed = name.endswith('_s')
                t = st if signed else ut
                a, b = Sc(t, a.v), Sc(t, b.v)
                if name.startswith(('div', 'rem')):
                    if isinstance(b.v, int):
                        if b.v == 0:
                            raise Trap('integer divide by zero')
                    else:
                        it.require(b.v != 0, 'wasm trap: integer divide by zero', 'trap')
                    if name == 'div_s':
                        mn = 1 << (w - 1)
                        if isinstance(a.v, int) and isinstance(b.v, int):
                            if a.v == mn and b.v == mask(w):
                                raise Trap('integer overflow')
                        else:
                            it.require(z3.Not(z3.And(it.bv(a) == mn, it.bv(b) == mask(w))), 'wasm trap: integer overflow', 'trap')
                    if name == 'rem_s' and isinstance(a.v, int) and isinstance(b.v, int) and b.v == mask(w):
                        stack.append(Sc(ut, 0))
                        return
                r = it.binop(self.IBIN[name], a, b)
                stack.append(Sc(ut, r.v))
                return
            if name in self.ICMP:
                b = stack.pop()
                a = stack.pop()
                opn, signed = self.ICMP[name]
                t = st if signed else ut
                r = it.binop(opn, Sc(t, a.v), Sc(t, b.v))
                stack.append(self.bool_to_i32(r))
                return
            if name == 'eqz':
                a = stack.pop()
                r = it.binop('Eq', Sc(ut, a.v), Sc(ut, 0))
                stack.append(self.bool_to_i32(r))
                return
            if name == 'wrap_i64':
                a = stack.pop()
                stack.append(it.int_to_int(Sc('u64', a.v), 'u32'))
                return
            if name in ('extend_i32_u', 'extend_i32_s'):
                a = stack.pop()
                stack.append(Sc('u64', it.int_to_int(Sc('i32' if name.endswith('_s') else 'u32', a.v), 'u64').v))
                return
            if name == 'reinterpret_f64':
                a = stack.pop()
                stack.append(self.as_bits64(a))
                return
            if name.startswith('trunc_sat_f64') or name.startswith('trunc_f64'):
                a = stack.pop()
                signed = name.endswith('_s')
                if not name.startswith('trunc_sat'):
                    # trapping truncation
                    x = a.v
                    lo, hi = (-(2.0 ** (w - 1)) - (1.0 if w == 32 else 0.0), 2.0 ** (w - 1)) if signed else (-1.0, 2.0 ** w)
                    if isinstance(x, int):
                        f = S.b2f(x)
                        if f != f:
                            raise Trap('invalid conversion to integer')
                        if not (lo < f < hi) and not (w == 64 and signed and f == -(2.0 ** 63)):
                            raise Trap('integer overflow')
                    else:
                        X = x
                        okc = z3.And(z3.Not(z3.fpIsNaN(X)), z3.fpLT(X, z3.FPVal(hi, S.F64)),
                                     z3.fpGT(X, z3.FPVal(lo, S.F64)) if not (w == 64 and signed) else z3.fpGEQ(X, z3.FPVal(lo, S.F64)))
                        it.require(okc, 'wasm trap: float to integer conversion out of range', 'trap')
                r = it.float_to_int(a, (st if signed else ut))
                stack.append(Sc(ut, r.v))
                return
            if name in ('clz', 'ctz', 'popcnt', 'rotl', 'rotr'):
                raise Unsupported('wasm op %s' % o)
        if ty == 'f64':
            if name in self.FBIN:
                b = stack.pop()
                a = stack.pop()
                stack.append(it.fbinop(self.FBIN[name], a, b))
                return
            if name in self.FCMP:
                b = stack.pop()
                a = stack.pop()
                stack.append(self.bool_to_i32(it.fbinop(self.FCMP[name], a, b)))
                return
            if name in ('abs', 'neg', 'sqrt', 'floor', 'ceil', 'trunc', 'nearest'):
                a = stack.pop()
                stack.append(self.funop(name, a))
                return
            if name in ('min', 'max'):
                b = stack.pop()
                a = stack.pop()
                stack.append(self.fminmax(name == 'min', a, b))
                return
            if name == 'copysign':
                b = stack.pop()
                a = stack.pop()
                A, B = self.as_bits64(a), self.as_bits64(b)
                if isinstance(A.v, int) and isinstance(B.v, int):
                    stack.append(Sc('f64', (A.v & mask(63)) | (B.v & (1 << 63))))
                else:
                    r = z3.Concat(z3.Extract(63, 63, it.bv(B)), z3.Extract(62, 0, it.bv(A)))
                    stack.append(Sc('f64', self.smt.fp_from_bits(r)))
                return
            if name == 'reinterpret_i64':
                a = stack.pop()
                stack.append(self.as_f64(a))
                return
            if name.startswith('convert_i'):
                a = stack.pop()
                src = name[len('convert_'):]
                st2 = {'i32_s': 'i32', 'i32_u': 'u32', 'i64_s': 'i64', 'i64_u': 'u64'}[src]
                stack.append(it.cast(Sc(st2, a.v), 'f64', 'IntToFloat', None))
                return
            if name == 'promote_f32':
                raise Unsupported('f32')
        raise Unsupported('wasm op %s' % o)

    def bool_to_i32(self, r):
        v = r.v
        if isinstance(v, int):
            return Sc('u32', v)
        return Sc('u32', z3.ZeroExt(31, v))

    def funop(self, name, a):
        import math
        x = a.v
        if isinstance(x, int):
            if name == 'abs':
                return Sc('f64', x & mask(63))
            if name == 'neg':
                return Sc('f64', x ^ (1 << 63))
            f = S.b2f(x)
            if name == 'sqrt':
                return Sc('f64', S.f2b(math.sqrt(f)) if f >= 0 else (S.f2b(f) if f != f else 0x7ff8000000000000))
            if f != f or math.isinf(f):
                return Sc('f64', x)
            if name == 'floor':
                r = float(math.floor(f))
            elif name == 'ceil':
                r = float(math.ceil(f))
            elif name == 'trunc':
                r = float(math.trunc(f))
            else:
                r = float(round(f))    # python round = ties-to-even
            if r == 0.0:
                r = math.copysign(0.0, f)
            return Sc('f64', S.f2b(r))
        X = x
        if name == 'abs':
            return Sc('f64', z3.fpAbs(X))
        if name == 'neg':
            return Sc('f64', z3.fpNeg(X))
        if name == 'sqrt':
            return Sc('f64', z3.fpSqrt(S.RNE, X))
        rm = {'floor': z3.RTN(), 'ceil': z3.RTP(), 'trunc': z3.RTZ(), 'nearest': z3.RNE()}[name]
        return Sc('f64', z3.fpRoundToIntegral(rm, X))

    def fminmax(self, is_min, a, b):
        x, y = a.v, b.v
        if isinstance(x, int) and isinstance(y, int):
            fx, fy = S.b2f(x), S.b2f(y)
            if fx != fx or fy != fy:
                return Sc('f64', 0x7ff8000000000000)
            if fx == fy:
                # zeros: min(-0,+0) = -0, max = +0
                if is_min:
                    return Sc('f64', x if (x >> 63) else y)
                return Sc('f64', y if (x >> 63) else x)
            if is_min:
                return Sc('f64', x if fx < fy else y)
            return Sc('f64', x if fx > fy else y)
        X, Y = self.smt.fp_lift(x), self.smt.fp_lift(y)
        nan = z3.fpNaN(S.F64)
        if is_min:
            r = z3.If(z3.Or(z3.fpIsNaN(X), z3.fpIsNaN(Y)), nan, z3.If(z3.fpLT(X, Y), X, z3.If(z3.fpLT(Y, X), Y, z3.If(z3.fpIsNegative(X), X, Y))))
        else:
            r = z3.If(z3.Or(z3.fpIsNaN(X), z3.fpIsNaN(Y)), nan, z3.If(z3.fpGT(X, Y), X, z3.If(z3.fpGT(Y, X), Y, z3.If(z3.fpIsNegative(X), Y, X))))
        return Sc('f64', r)
