"""Driver of the WASM runtime.

The per-sample protocol is NOT mirrored by hand: the MIR of the real `WasmDspRuntime::{new, run_main, set_sample_rate}` and of
`<WasmDspRuntime as DspRuntime>::{set_input, run_dsp, get_output, try_hot_swap}` and `WasmEngine::{execute_dsp,
execute_function, current_module_mut, read_memory_f64, get_global_state_data, set_global_state_data}`
(crates/lib/mimium-lang/src/runtime/wasm/engine.rs) is executed by mirsym.  Only the wasmtime surface is a stub: the methods
of `WasmModule` (Store + Instance) are served by the wasmsym instance of the emitted module:
  get_runtime_state_mut -> the modelled RuntimeState;  get_alloc_ptr / set_alloc_ptr -> the exported global;
  read_memory_f64 -> linear memory (bounds check as in the source);  call_function / call_func_direct -> wasmsym call with
  the Word<->Val conversion of the source (argument count mismatch -> Err)."""
import z3
from mirsym.values import Sc, Agg, Ref, Slice, VecV, StrV, Opaque, UNIT
from mirsym.interp import Unsupported
from mirsym.models import some, none, ok, err, as_slice, slice_items
from .wat import parse_module
from .exec import Instance, TYMAP
from .hostwasm import Host, _unref

_mod_cache = {}


def load_module(wat_text):
    import hashlib
    key = hashlib.sha1(wat_text.encode()).hexdigest()
    m = _mod_cache.get(key)
    if m is None:
        if len(_mod_cache) > 64:
            _mod_cache.clear()
        m = parse_module(wat_text)
        _mod_cache[key] = m
    return m


class ModuleV(object):
    """wasm::WasmModule = wasmtime Store<RuntimeState> + Instance: here the wasmsym instance and its host state"""
    __slots__ = ('inst', 'host', 'module')

    def __init__(self, inst, host, module):
        self.inst = inst
        self.host = host
        self.module = module


class FuncV(object):
    """wasmtime::Func handle of an exported function"""
    __slots__ = ('name',)

    def __init__(self, name):
        self.name = name


def _struct(it, name, **fields):
    s = it.layouts.find_struct(name)
    if s is None:
        raise Unsupported('struct %s not found in the sources' % name)
    missing = [f for f in s.fields if f not in fields]
    extra = [f for f in fields if f not in s.fields]
    if missing or extra:
        raise Unsupported('struct %s changed: fields %r (driver expects %r)' % (name, s.fields, sorted(fields)))
    return Agg(name, None, [fields[f] for f in s.fields])


def _field(it, agg, sname, fname):
    s = it.layouts.find_struct(sname)
    return agg.fields[s.fields.index(fname)]


def install_module_models(it):
    ex = it.models.extra
    if ex.get('_wasm_module_models'):
        return
    ex['_wasm_module_models'] = True

    def mod(a):
        m = _unref(a)
        if type(m) is not ModuleV:
            raise Unsupported('expected WasmModule, got %r' % (m,))
        return m

    def get_runtime_state_mut(it, args, fr, callee):
        return some(Ref(mod(args[0]).host.cell, 0))
    ex['WasmModule::get_runtime_state_mut'] = get_runtime_state_mut

    def get_alloc_ptr(it, args, fr, callee):
        m = mod(args[0])
        if '__alloc_ptr' not in m.module.exports:
            return err(StrV('No __alloc_ptr global export'))
        g = m.inst.globals[m.inst.export_global('__alloc_ptr')]
        return ok(Sc('i32', g.v))
    ex['WasmModule::get_alloc_ptr'] = get_alloc_ptr

    def set_alloc_ptr(it, args, fr, callee):
        m = mod(args[0])
        if '__alloc_ptr' not in m.module.exports:
            return err(StrV('No __alloc_ptr global export'))
        m.inst.globals[m.inst.export_global('__alloc_ptr')] = Sc('u32', args[1].v)
        return ok(UNIT)
    ex['WasmModule::set_alloc_ptr'] = set_alloc_ptr

    def read_memory_f64(it, args, fr, callee):
        m = mod(args[0])
        size = m.inst.mem.size_bytes()
        ov = args[1].v
        if not isinstance(ov, int):
            ov2 = z3.simplify(ov)
            if z3.is_bv_value(ov2):
                ov = ov2.as_long()
        if not isinstance(ov, int):
            # symbolic offset (e.g. a sample value misread as a pointer): the bounds check of the source decides; inside the
            # memory a symbolic address is beyond what wasmsym models
            inb = z3.And(z3.ULE(ov, z3.BitVecVal(size - 8, 64)))
            if it.branch(inb):
                raise Unsupported('read_memory_f64 at a symbolic offset inside the linear memory')
            return err(StrV('Memory read out of bounds'))
        off = ov
        if off + 8 > size:
            return err(StrV('Memory read out of bounds'))
        return ok(m.inst.as_f64(m.inst.mem.load64(off)))
    ex['WasmModule::read_memory_f64'] = read_memory_f64

    def get_or_cache_function(it, args, fr, callee):
        m = mod(args[0])
        name = _unref(args[1]).s
        kind_ref = m.module.exports.get(name)
        if kind_ref is None or kind_ref[0] != 'func':
            return err(StrV("Function '%s' not found in WASM module" % name))
        return ok(FuncV(name))
    ex['WasmModule::get_or_cache_function'] = get_or_cache_function

    def call_direct(it, m, fv, words):
        inst = m.inst
        fidx = inst.export_func(fv.name)
        f = m.module.funcs[fidx]
        if len(f.params) != len(words):
            return err(StrV('Failed to call function: argument count mismatch: expected %d, found %d' % (len(f.params), len(words))))
        wargs = []
        for w, pt in zip(words, f.params):
            if pt == 'f64':
                wargs.append(inst.as_f64(w))     # Val::F64(word): raw bits
            elif pt == 'i64':
                wargs.append(Sc('u64', inst.as_bits64(w).v))                           # Val::I64(word as i64)
            else:
                wargs.append(it.int_to_int(Sc('u64', inst.as_bits64(w).v), 'u32'))     # Val::I32(word as i32)
        res = inst.call_func(fidx, wargs)
        outs = []
        for r in res:
            if r.t == 'u32':
                outs.append(it.int_to_int(Sc('i32', r.v), 'u64'))                      # Val::I32(i) => i as u64 (sign-extends)
            else:
                outs.append(Sc('u64', inst.as_bits64(r).v))
        return ok(VecV(outs))

    def call_func_direct(it, args, fr, callee):
        m = mod(args[0])
        fv = _unref(args[1])
        return call_direct(it, m, fv, slice_items(it, as_slice(args[2])))
    ex['WasmModule::call_func_direct'] = call_func_direct

    def call_function(it, args, fr, callee):
        m = mod(args[0])
        r = get_or_cache_function(it, [args[0], args[1]], fr, callee)
        if r.variant == 1:
            return r
        return call_direct(it, m, r.fields[0], slice_items(it, as_slice(args[2])))
    ex['WasmModule::call_function'] = call_function


class WasmRun(object):
    """one WASM runtime (WasmDspRuntime over a loaded engine) inside one path"""

    def __init__(self, it, wasm_json, samplerate=48000.0, host_cls=Host, workers=None):
        from mirsym.vmdriver import skel_value
        self.it = it
        self.wasm_json = wasm_json
        self.module = load_module(wasm_json['wat'])
        self.host = host_cls(it, samplerate)
        self.samplerate = samplerate
        self.inst = Instance(self.module, it, self.host)
        install_module_models(it)
        io = wasm_json.get('io')
        self.n_in = io['input'] if io else 0
        self.n_out = io['output'] if io else 0
        self.has_io = io is not None
        self.modv = ModuleV(self.inst, self.host, self.module)
        self.engine = self.make_engine(self.modv)
        io_v = some(Agg('IoChannelInfo', None, [Sc('u32', io['input']), Sc('u32', io['output'])])) if io else none()
        sk = wasm_json.get('dsp_state_skeleton')
        sk_v = some(skel_value(it, sk)) if sk is not None else none()
        # WasmDspRuntime::new(engine, io_channels, dsp_skeleton)
        self.rt = it.call('WasmDspRuntime::new', [self.engine, io_v, sk_v], None)
        self.rtref = Ref([self.rt], 0)
        if workers:
            it.call('WasmDspRuntime::set_wasm_audioworkers', [self.rtref, VecV(list(workers))], None)
        # keep retired engines alive like the CLI / mmdump do (set_engine_retire_sender)
        ch = it.call('std::sync::mpsc::channel', [], None)
        self.retire_rx = ch.fields[1]
        it.call('WasmDspRuntime::set_engine_retire_sender', [self.rtref, ch.fields[0]], None)

    def make_engine(self, modv):
        it = self.it
        has_dsp = 'dsp' in self.module.exports
        return _struct(it, 'WasmEngine', runtime=Opaque('WasmRuntime'), current_module=some(modv),
                       dsp_func=some(FuncV('dsp')) if has_dsp else none())

    # -- accessors -------------------------------------------------------------------------------
    def cur_engine(self):
        return _field(self.it, self.rt, 'WasmDspRuntime', 'engine')

    def cur_modv(self):
        cm = _field(self.it, self.cur_engine(), 'WasmEngine', 'current_module')
        return cm.fields[0]

    def cur_host(self):
        return self.cur_modv().host

    # -- protocol (every step is the MIR of the real function) ---------------------------------------
    def run_main(self):
        r = self.it.call('WasmDspRuntime::run_main', [self.rtref], None)
        # Driver::init -> DspRuntime::set_sample_rate after main (main itself sees the default 44100)
        self.it.call('WasmDspRuntime::set_sample_rate', [self.rtref, Sc('f64', _f2b(self.samplerate))], None)
        return r

    def set_input(self, words):
        ws = list(words)          # raw words (bit patterns of the f64 samples)
        if ws:
            self.it.call('WasmDspRuntime::set_input', [self.rtref, Slice(ws, 0, len(ws))], None)

    def run_dsp(self, time_sc):
        it = self.it
        rc = it.call('WasmDspRuntime::run_dsp', [self.rtref, Agg('Time', None, [time_sc])], None)
        # the drivers ask the runtime for its channel count (DspRuntime::io_channels) and read that many samples
        io = it.call('WasmDspRuntime::io_channels', [self.rtref], None)
        n_out = it.concretize(io.fields[0].fields[1], 'output channels') if io.variant == 1 else 1
        s = it.call('WasmDspRuntime::get_output', [self.rtref, Sc('usize', n_out)], None)
        inst = self.cur_modv().inst
        outs = [Sc('u64', inst.as_bits64(x).v) for x in slice_items(it, as_slice(s))]
        return rc, outs

    def try_hot_swap(self, payload):
        return self.it.call('WasmDspRuntime::try_hot_swap', [self.rtref, payload], None)


def _f2b(x):
    import struct
    return struct.unpack('<Q', struct.pack('<d', x))[0]
