"""Driver protocol of the WASM runtime, mirroring WasmDspRuntime::{run_main, run_dsp, set_input} in
crates/lib/mimium-lang/src/runtime/wasm/engine.rs."""
from mirsym.values import Sc
from mirsym.interp import Unsupported
from .wat import parse_module
from .exec import Instance, TYMAP
from .hostwasm import Host

_mod_cache = {}


def load_module(wat_text):
    import hashlib
    key = hashlib.sha1(wat_text.encode()).hexdigest()
    m = _mod_cache.get(key)
    if m is None:
        if len(_mod_cache) > 64:
            _mod_cache.clear()
        m = parse_module(wat_text)
        _mod_cache[key] = m
    return m


class WasmRun(object):
    def __init__(self, it, wasm_json, samplerate=48000.0, host_cls=Host):
        self.it = it
        self.module = load_module(wasm_json['wat'])
        self.host = host_cls(it, samplerate)
        self.samplerate = samplerate
        self.inst = Instance(self.module, it, self.host)
        io = wasm_json.get('io')
        self.n_in = io['input'] if io else 0
        self.n_out = io['output'] if io else 0
        self.has_io = io is not None
        self.input_cache = [Sc('u64', 0)] * self.n_in

    def run_main(self):
        if 'main' in self.module.exports:
            self.inst.call_export('main', [])
        # Driver::init -> set_sample_rate happens after main (main itself sees the default 44100)
        self.host.set_sample_rate(self.samplerate)

    def set_input(self, words):
        n = min(len(words), len(self.input_cache))
        self.input_cache[:n] = list(words)[:n]

    def run_dsp(self, time_sc):
        inst = self.inst
        g_alloc = inst.export_global('__alloc_ptr') if '__alloc_ptr' in self.module.exports else None
        saved = inst.globals[g_alloc] if g_alloc is not None else None
        self.host.set_time(time_sc)
        fidx = inst.export_func('dsp')
        f = self.module.funcs[fidx]
        if len(f.params) != len(self.input_cache):
            raise Unsupported('dsp argument count mismatch: expected %d, found %d' % (len(f.params), len(self.input_cache)))
        args = []
        for w, pt in zip(self.input_cache, f.params):
            if pt == 'f64':
                args.append(inst.as_f64(w))
            elif pt == 'i64':
                args.append(Sc('u64', w.v))
            else:
                args.append(self.it.int_to_int(Sc('u64', w.v), 'u32'))
        res = inst.call_func(fidx, args)
        out_channels = self.n_out if self.has_io else 1
        outs = []
        if out_channels > 1:
            if res:
                ptr = inst.conc_addr(inst.as_bits64(res[0]), 0)
                for ch in range(out_channels):
                    a = ptr + 8 * ch
                    if a + 8 > inst.mem.size_bytes():
                        outs.append(Sc('u64', 0))      # read_memory_f64(..).unwrap_or(0.0)
                    else:
                        outs.append(inst.as_bits64(inst.mem.load64(a)))
        else:
            outs = [inst.as_bits64(r) if r.t != 'u32' else Sc('u64', r.v) for r in res]
        if saved is not None:
            inst.globals[g_alloc] = saved
        return 0, outs
