"""Host side of the WASM runtime: imports of the emitted module are served by executing the MIR of the Rust
host functions registered in crates/lib/mimium-lang/src/runtime/wasm.rs on a modelled `RuntimeState`.
Only the wasmtime API surface (`Caller`, `Memory`) is stubbed."""
import re
import z3
from mirsym.values import *
from mirsym.interp import Unsupported, PanicReached
from mirsym.models import some, none, ok, err, as_slice, slice_items, MODELS, model, tmodel
from mirsym import smt as S
from mirsym.smt import mask
from .exec import Trap, TYMAP

RS_FIELDS = ['memory', 'heap', 'arrays', 'global_state', 'closure_states', 'state_stack', 'current_time', 'sample_rate']


def check_layout(L):
    s = L.find_struct('RuntimeState')
    if s is None or s.fields != RS_FIELDS:
        return ['RuntimeState fields changed: %r' % (s.fields if s else None)]
    st = L.find_struct('StateStorage', ['pos', 'data'])
    if st is None or st.fields != ['pos', 'data']:
        return ['wasm StateStorage fields changed']
    return []


class MemoryV(object):
    """wasmtime::Memory handle (Copy)"""
    __slots__ = ('inst',)

    def __init__(self, inst):
        self.inst = inst


class CallerV(object):
    """wasmtime::Caller<'_, RuntimeState>"""
    __slots__ = ('cell', 'inst')

    def __init__(self, cell, inst):
        self.cell = cell
        self.inst = inst


def _unref(x):
    while type(x) is Ref:
        x = x.cont[x.key]
    return x


class Host(object):
    def __init__(self, it, samplerate=48000.0):
        self.it = it
        self.inst = None
        self.rs = Agg('RuntimeState', None, [
            none(),                                   # memory (set at attach)
            SlotMapV(),                               # heap
            MapV('map'),                              # arrays
            Agg('StateStorage', None, [Sc('usize', 0), VecV([])]),
            MapV('map'),                              # closure_states
            VecV([]),                                 # state_stack
            Sc('u64', 0),                             # current_time
            Sc('f64', S.f2b(44100.0)),                # sample_rate default; the driver sets it like WasmDspRuntime::set_sample_rate
        ])
        self.cell = [self.rs]
        self.math_closures = None
        self.imports_used = {}
        self.install_models()

    def attach(self, inst):
        self.inst = inst
        self.rs.fields[0] = some(MemoryV(inst))

    # -- state access for the driver -------------------------------------------------------------
    def state_words(self):
        return self.rs.fields[3].fields[1].buf

    def state_pos(self):
        return self.rs.fields[3].fields[0]

    def set_time(self, t):
        self.rs.fields[6] = t

    def set_sample_rate(self, sr):
        self.rs.fields[7] = Sc('f64', S.f2b(sr))

    # -- import dispatch -------------------------------------------------------------------------
    def call_import(self, inst, mod, name, args, f):
        it = self.it
        self.imports_used['%s.%s' % (mod, name)] = self.imports_used.get('%s.%s' % (mod, name), 0) + 1
        caller = CallerV(self.cell, inst)
        margs = [caller] + [self.to_rust(a, t) for a, t in zip(args, f.params)]
        if mod == 'runtime':
            fn = name + '_host' if not name.endswith('_host') else name
            r = it.call(fn, margs, None)
        elif mod == 'math':
            r = self.call_math(name, margs)
        elif mod == 'builtin':
            base = {'len': 'builtin_length_array_host', 'probe': 'builtin_probe_host', 'probeln': 'builtin_probeln_host',
                    'split_head': 'builtin_split_head_host', 'split_tail': 'builtin_split_tail_host'}.get(name)
            import re as _re
            ma = _re.fullmatch(r'(split_head|split_tail)\$arity(\d+)', name)
            if base is None and ma:
                # registered by the runtime as a closure `move |caller, array, dst_ptr| builtin_split_*_arity_host(caller, array, dst_ptr, arity)`
                r = it.call('builtin_%s_arity_host' % ma.group(1), margs + [Sc('usize', int(ma.group(2)))], None)
            elif base is None and _re.fullmatch(r'(prepend|append)\$arity(\d+)', name):
                # registered with Linker::func_new: the host function sees wasmtime `Val`s (I32 = 0, I64 = 1, F32 = 2, F64 = 3 as
                # bit patterns) and writes its result into a `&mut [Val]`
                mb = _re.fullmatch(r'(prepend|append)\$arity(\d+)', name)
                vals = []
                for a, t in zip(args, f.params):
                    rv = self.to_rust(a, t)
                    if t == 'f64':
                        bits = it.smt.fp_to_bits(rv.v) if rv.t == 'f64' else rv.v
                        vals.append(Agg('wasmtime::Val', 3, [Sc('u64', bits)]))
                    elif t == 'i64':
                        vals.append(Agg('wasmtime::Val', 1, [rv]))
                    else:
                        vals.append(Agg('wasmtime::Val', 0, [rv]))
                results = [Agg('wasmtime::Val', 1, [Sc('i64', 0)]) for _ in f.results]
                it.call('builtin_%s_arity_host' % mb.group(1), [caller, Slice(vals, 0, len(vals)), Slice(results, 0, len(results)), Sc('usize', int(mb.group(2)))], None)
                if not f.results:
                    return []
                r = results[0].fields[0]
            elif base is None:
                raise Unsupported('wasm import builtin.%s' % name)
            else:
                r = it.call(base, margs, None)
        elif mod == 'plugin':
            r = self.call_plugin(name, margs, f)
        else:
            raise Unsupported('wasm import %s.%s' % (mod, name))
        if not f.results:
            return []
        return [self.from_rust(r, f.results[0])]

    def to_rust(self, v, wt):
        if wt == 'i32':
            return Sc('i32', v.v)
        if wt == 'i64':
            return Sc('i64', v.v)
        return v

    def from_rust(self, v, wt):
        if wt == 'f64':
            return v
        return Sc(TYMAP[wt], v.v)

    def call_math(self, name, margs):
        it = self.it
        if self.math_closures is None:
            self.math_closures = {}
            # locate `"sin" => |_caller: Caller<'_, RuntimeState>, x: f64| -> f64 { x.sin() },` in the source
            lines = it.crate.src_lines('crates/lib/mimium-lang/src/runtime/wasm.rs')
            for li, l in enumerate(lines):
                m = re.match(r'\s*"([a-z0-9_]+)" => (\|_caller: Caller)', l)
                if m:
                    col = m.start(2) + 1
                    self.math_closures[m.group(1)] = 'wasm.rs:%d:%d:' % (li + 1, col)
        key = self.math_closures.get(name)
        if key is None:
            raise Unsupported('math import %s not found in wasm.rs' % name)
        for span, (mir, fname) in it.crate.closure_by_span.items():
            if key in span:
                body = mir.get(fname)
                env = Agg('closure:' + span, None, [])
                selfarg = Ref([env], 0) if body.local_types.get(1, '').startswith('&') else env
                return it.call_body(mir, fname, body, [selfarg] + margs, None)
        raise Unsupported('closure body for math.%s not in MIR' % name)

    def call_plugin(self, name, margs, f):
        """STUB of the generic trampoline built by WasmRuntime::register_plugin_functions for a plugin function
        that has no WasmPluginFn handler (true for every builtin when no system plugin is loaded):
        void -> nothing; `*intercept*` with >=2 params and first param type == result type -> params passed through;
        otherwise the zero value of the result type."""
        h = getattr(self, 'plugin_handlers', {}).get(name)
        if h is not None:
            # STUB of the standard trampoline of WasmRuntime::register_plugin_functions WITH a handler (wasmtime Val level):
            # decode_trampoline_args: F64 -> the float, I64 / I32 -> `i as f64`; void: call for side effects; otherwise
            # Some(r) -> r converted by the declared return type (I64: r as i64, I32: r as i32, else the f64 bits)
            it = self.it
            it.models.note('STUB plugin trampoline (handler): ' + name)
            args = []
            for a, pt in zip(margs[1:], f.params):
                if pt == 'f64':
                    args.append(a if a.t == 'f64' else Sc('f64', it.smt.fp_from_bits(a.v)))
                else:
                    args.append(it.cast(Sc('i64' if pt == 'i64' else 'i32', a.v), 'f64', 'IntToFloat', None))
            r = it.call_value(h, [Slice(args, 0, len(args))], None)
            if not f.results:
                return UNIT
            if r.variant == 1:
                v = r.fields[0]
                rt = f.results[0]
                if rt == 'f64':
                    return v
                return it.float_to_int(v, 'i64' if rt == 'i64' else 'i32')
        self.it.models.note('STUB plugin trampoline (no handler): ' + name)
        if not f.results:
            return UNIT
        if 'intercept' in name and len(f.params) >= 2 and f.params[0] == f.results[0]:
            return margs[1]
        rt = f.results[0]
        return Sc('f64', 0) if rt == 'f64' else Sc('i64' if rt == 'i64' else 'i32', 0)

    # -- wasmtime API stubs ------------------------------------------------------------------------
    def install_models(self):
        ex = self.it.models.extra
        host = self

        def data_mut(it, args, fr, callee):
            c = _unref(args[0])
            return Ref(c.cell, 0)
        ex['Caller::data_mut'] = ex['Caller::data'] = ex['wasmtime::Caller::data_mut'] = ex['wasmtime::Caller::data'] = data_mut

        def mem_data_size(it, args, fr, callee):
            mem = _unref(args[0])
            return Sc('usize', mem.inst.mem.size_bytes())
        ex['Memory::data_size'] = ex['wasmtime::Memory::data_size'] = mem_data_size

        def mem_write(it, args, fr, callee):
            mem = _unref(args[0])
            off = it.concretize(args[2], 'Memory::write offset')
            data = args[3]
            return host.mem_write(mem.inst, off, data)
        ex['Memory::write'] = ex['wasmtime::Memory::write'] = mem_write

        def mem_read(it, args, fr, callee):
            mem = _unref(args[0])
            off = it.concretize(args[2], 'Memory::read offset')
            return host.mem_read(mem.inst, off, args[3])
        ex['Memory::read'] = ex['wasmtime::Memory::read'] = mem_read

    def mem_write(self, inst, off, data):
        it = self.it
        if type(data) is ByteSlice:
            nbytes = data.nbytes
            if off + nbytes > inst.mem.size_bytes():
                return err(Opaque('MemoryAccessError'))
            if off % 8 or nbytes % 8:
                raise Unsupported('unaligned host Memory::write')
            for k in range(nbytes // 8):
                inst.mem.cells[off + 8 * k] = data.buf[data.start + k]
            return ok(UNIT)
        s = as_slice(data)
        items = slice_items(it, s)
        n = len(items)
        if off + n > inst.mem.size_bytes():
            return err(Opaque('MemoryAccessError'))
        if off % 8 or n % 8:
            raise Unsupported('unaligned host Memory::write (%d bytes at %d)' % (n, off))
        for k in range(n // 8):
            inst.mem.cells[off + 8 * k] = Sc('u64', join_bytes(it, items[8 * k:8 * k + 8]))
        return ok(UNIT)

    def mem_read(self, inst, off, dst):
        it = self.it
        if type(dst) is ByteSlice:
            nbytes = dst.nbytes
            if off + nbytes > inst.mem.size_bytes():
                return err(Opaque('MemoryAccessError'))
            if off % 8 or nbytes % 8:
                raise Unsupported('unaligned host Memory::read')
            for k in range(nbytes // 8):
                dst.buf[dst.start + k] = inst.as_bits64(inst.mem.cells.get(off + 8 * k, Sc('u64', 0)))
            return ok(UNIT)
        s = as_slice(dst)
        n = it.concretize(Sc('usize', s.len), 'slice length')
        if off + n > inst.mem.size_bytes():
            return err(Opaque('MemoryAccessError'))
        if off % 8 or n % 8:
            raise Unsupported('unaligned host Memory::read (%d bytes at %d)' % (n, off))
        for k in range(n // 8):
            w = inst.as_bits64(inst.mem.cells.get(off + 8 * k, Sc('u64', 0)))
            for b in range(8):
                s.buf[s.start + 8 * k + b] = byte_of(it, w, b)
        return ok(UNIT)


def byte_of(it, w, k):
    v = w.v
    if isinstance(v, int):
        return Sc('u8', (v >> (8 * k)) & 255)
    return Sc('u8', z3.Extract(8 * k + 7, 8 * k, v))


def join_bytes(it, bs):
    if all(isinstance(b.v, int) for b in bs):
        v = 0
        for k, b in enumerate(bs):
            v |= b.v << (8 * k)
        return v
    parts = [it.bv(b) for b in reversed(bs)]
    return z3.simplify(z3.Concat(*parts))


# models of byte-level integer conversions used by the host functions --------------------------------
def _le_bytes(it, args, fr, callee):
    w = args[0]
    return Agg('array', None, [byte_of(it, w, k) for k in range(S.INT_W[w.t] // 8)])


def _from_le_bytes(it, args, fr, callee):
    arr = args[0]
    t = 'u64'
    m = re.search(r'impl (u\d+|i\d+|usize|isize)', callee)
    if m:
        t = m.group(1)
    return Sc(t, join_bytes(it, arr.fields))


for _t in ('u64', 'i64', 'u32', 'i32', 'usize'):
    MODELS['%s::to_le_bytes' % _t] = _le_bytes
    MODELS['%s::from_le_bytes' % _t] = _from_le_bytes
MODELS['core::num::to_le_bytes'] = _le_bytes
MODELS['core::num::from_le_bytes'] = _from_le_bytes


@model('core::slice::chunks', 'slice::chunks')
def m_chunks(it, args, fr, callee):
    from mirsym.models import IterV
    s = as_slice(args[0])
    n = it.concretize(args[1], 'chunk size')
    if n == 0:
        raise PanicReached('chunk size must be non-zero', 'panic')
    st = it.concretize(Sc('usize', s.start), 'slice start')
    ln = it.concretize(Sc('usize', s.len), 'slice length')
    return IterV((Slice(s.buf, st + i, min(n, ln - i)) for i in range(0, ln, n)), 'chunks')


@tmodel('Caller', 'AsContextMut', 'as_context_mut')
@tmodel('Caller', 'AsContext', 'as_context')
def m_as_context(it, args, fr, callee):
    return args[0]
