"""Parser for the WAT text that `wasmprinter` emits for wasmgen modules (flat instruction lists, structured control)."""
import re


class WatError(Exception):
    pass


class Func:
    __slots__ = ('idx', 'name', 'type_idx', 'params', 'results', 'locals', 'body', 'import_mod', 'import_name', 'nlines')


class Module:
    def __init__(self):
        self.types = []        # (params, results)
        self.funcs = []        # index space incl. imports
        self.by_name = {}
        self.exports = {}      # name -> ('func'|'memory'|'global'|'table', idx or name)
        self.globals = []      # [type, mutable, init_value]
        self.mem_pages = (0, None)
        self.table = {}        # elem index -> func idx
        self.table_size = 0
        self.data = []         # (offset, bytes)


_tok_re = re.compile(r'\(;.*?;\)|;;[^\n]*|"(?:[^"\\]|\\.)*"|\(|\)|[^\s()]+', re.S)


def tokenize(text):
    out = []
    for m in _tok_re.finditer(text):
        t = m.group(0)
        if t.startswith('(;') or t.startswith(';;'):
            continue
        out.append(t)
    return out


def parse_sexpr(tokens):
    pos = [0]

    def rec():
        t = tokens[pos[0]]
        if t == '(':
            pos[0] += 1
            lst = []
            while tokens[pos[0]] != ')':
                lst.append(rec())
            pos[0] += 1
            return lst
        pos[0] += 1
        return t
    return rec()


BLOCK_OPS = ('block', 'loop', 'if')


def build_body(items):
    """flat token list of instructions -> nested list.  items: list of str / list (folded immediates like (type N), (result T))"""
    pos = [0]

    def parse_seq(terms):
        seq = []
        while pos[0] < len(items):
            it = items[pos[0]]
            if isinstance(it, str) and it in terms:
                return seq, it
            pos[0] += 1
            if isinstance(it, list):
                # folded immediates attached to previous instruction
                if seq:
                    seq[-1][1].append(it)
                continue
            if it in BLOCK_OPS:
                imms = []
                while pos[0] < len(items) and isinstance(items[pos[0]], list):
                    imms.append(items[pos[0]])
                    pos[0] += 1
                # optional label
                if pos[0] < len(items) and isinstance(items[pos[0]], str) and items[pos[0]].startswith('$'):
                    pos[0] += 1
                body, term = parse_seq(('end', 'else'))
                els = None
                if term == 'else':
                    pos[0] += 1
                    els, term = parse_seq(('end',))
                pos[0] += 1  # end
                seq.append((it, imms, body, els))
            else:
                seq.append((it, []))
        return seq, None

    # instructions with plain immediates: attach following literal tokens
    seq, _ = parse_seq(())
    return seq


IMM_COUNT = {
    'local.get': 1, 'local.set': 1, 'local.tee': 1, 'global.get': 1, 'global.set': 1, 'call': 1, 'br': 1, 'br_if': 1,
    'i32.const': 1, 'i64.const': 1, 'f64.const': 1, 'f32.const': 1, 'ref.func': 1, 'table.get': 0, 'table.set': 0,
}


def regroup(tokens):
    """turn the flat token stream of a function body into items where each instruction's literal immediates are merged:
    returns list of str (opcode), with immediates encoded as 'op imm1 imm2' joined by \\x00"""
    out = []
    i, n = 0, len(tokens)
    while i < n:
        t = tokens[i]
        if isinstance(t, list):
            out.append(t)
            i += 1
            continue
        op = t
        i += 1
        if op == 'br_table':
            imms = []
            while i < n and isinstance(tokens[i], str) and re.fullmatch(r'\d+', tokens[i]):
                imms.append(tokens[i])
                i += 1
            out.append('\x00'.join([op] + imms))
            continue
        k = IMM_COUNT.get(op)
        if k is None:
            # memory ops: optional offset=N align=N
            imms = []
            while i < n and isinstance(tokens[i], str) and (tokens[i].startswith('offset=') or tokens[i].startswith('align=')):
                imms.append(tokens[i])
                i += 1
            out.append('\x00'.join([op] + imms))
            continue
        imms = []
        for _ in range(k):
            if i < n and isinstance(tokens[i], str):
                imms.append(tokens[i])
                i += 1
        out.append('\x00'.join([op] + imms))
    return out


def parse_module(text):
    sx = parse_sexpr(tokenize(text))
    if sx[0] != 'module':
        raise WatError('not a module')
    m = Module()
    for item in sx[1:]:
        if not isinstance(item, list):
            continue
        k = item[0]
        if k == 'type':
            f = [x for x in item[1:] if isinstance(x, list) and x[0] == 'func'][0]
            params, results = [], []
            for p in f[1:]:
                if p[0] == 'param':
                    params += [x for x in p[1:] if not x.startswith('$')]
                elif p[0] == 'result':
                    results += p[1:]
            m.types.append((params, results))
        elif k == 'import':
            mod, name = item[1].strip('"'), item[2].strip('"')
            d = item[3]
            if d[0] == 'func':
                f = Func()
                f.idx = len(m.funcs)
                f.name = None
                f.import_mod, f.import_name = mod, name
                f.type_idx = int([x for x in d[1:] if isinstance(x, list) and x[0] == 'type'][0][1])
                f.params, f.results = m.types[f.type_idx]
                f.locals, f.body = [], None
                f.nlines = 0
                m.funcs.append(f)
        elif k == 'func':
            f = Func()
            f.idx = len(m.funcs)
            f.import_mod = f.import_name = None
            rest = item[1:]
            f.name = None
            if rest and isinstance(rest[0], str) and rest[0].startswith('$'):
                f.name = rest[0]
                rest = rest[1:]
            f.params, f.results, f.locals = [], [], []
            f.type_idx = None
            body_tokens = []
            hdr = True
            for x in rest:
                if hdr and isinstance(x, list) and x[0] in ('type', 'param', 'result', 'local', 'export'):
                    if x[0] == 'type':
                        f.type_idx = int(x[1])
                    elif x[0] == 'param':
                        f.params += [y for y in x[1:] if not y.startswith('$')]
                    elif x[0] == 'result':
                        f.results += x[1:]
                    elif x[0] == 'local':
                        f.locals += [y for y in x[1:] if not y.startswith('$')]
                    continue
                hdr = False
                body_tokens.append(x)
            if f.type_idx is not None and not f.params and not f.results:
                f.params, f.results = m.types[f.type_idx]
            f.body = build_body(regroup(body_tokens))
            f.nlines = len(body_tokens)
            m.funcs.append(f)
            if f.name:
                m.by_name[f.name] = f.idx
        elif k == 'export':
            name = item[1].strip('"')
            d = item[2]
            m.exports[name] = (d[0], d[1])
        elif k == 'global':
            rest = [x for x in item[1:]]
            ty = [x for x in rest if isinstance(x, list) and x[0] == 'mut']
            if ty:
                gty, mut = ty[0][1], True
                idx = rest.index(ty[0])
            else:
                gty, mut = [x for x in rest if isinstance(x, str) and x in ('i32', 'i64', 'f64', 'f32')][0], False
                idx = rest.index(gty)
            init = rest[idx + 1:]
            val = _const_init(init)
            m.globals.append([gty, mut, val])
        elif k == 'memory':
            nums = [int(x) for x in item[1:] if isinstance(x, str) and x.isdigit()]
            m.mem_pages = (nums[0], nums[1] if len(nums) > 1 else None)
        elif k == 'table':
            nums = [int(x) for x in item[1:] if isinstance(x, str) and x.isdigit()]
            m.table_size = nums[0] if nums else 0
        elif k == 'elem':
            off = 0
            funcs = []
            seen_func = False
            for x in item[1:]:
                if isinstance(x, list) and x and x[0] in ('i32.const', 'offset'):
                    off = int(x[1] if x[0] == 'i32.const' else x[1][1])
                elif x == 'func':
                    seen_func = True
                elif seen_func and isinstance(x, str):
                    funcs.append(x)
            for i, fx in enumerate(funcs):
                m.table[off + i] = fx
        elif k == 'data':
            off = 0
            blob = b''
            for x in item[1:]:
                if isinstance(x, list) and x and x[0] == 'i32.const':
                    off = int(x[1])
                elif isinstance(x, str) and x.startswith('"'):
                    blob += _wat_string(x)
            m.data.append((off, blob))
    # resolve table entries to indices
    for k2, v in list(m.table.items()):
        m.table[k2] = m.by_name[v] if v.startswith('$') else int(v)
    return m


def _const_init(init):
    flat = []
    for x in init:
        if isinstance(x, list):
            flat += x
        else:
            flat.append(x)
    if len(flat) >= 2 and flat[0].endswith('.const'):
        return parse_num(flat[0].split('.')[0], flat[1])
    return 0


def _wat_string(tok):
    s = tok[1:-1]
    out = bytearray()
    i = 0
    while i < len(s):
        c = s[i]
        if c == '\\':
            nx = s[i + 1]
            if nx in '0123456789abcdefABCDEF' and i + 2 < len(s) and s[i + 2] in '0123456789abcdefABCDEF':
                out.append(int(s[i + 1:i + 3], 16))
                i += 3
                continue
            out.append({'n': 10, 't': 9, 'r': 13, '"': 34, "'": 39, '\\': 92}.get(nx, ord(nx)))
            i += 2
            continue
        out += c.encode('utf-8')
        i += 1
    return bytes(out)


def parse_num(ty, txt):
    import struct
    txt = txt.replace('_', '')
    if ty in ('i32', 'i64'):
        w = 32 if ty == 'i32' else 64
        v = int(txt, 0)
        return v & ((1 << w) - 1)
    if ty == 'f64':
        if txt in ('nan', '+nan'):
            return 0x7ff8000000000000
        if txt == '-nan':
            return 0xfff8000000000000
        if 'nan:' in txt:
            payload = int(txt.split(':')[1], 16)
            sign = 1 << 63 if txt.startswith('-') else 0
            return sign | 0x7ff0000000000000 | payload
        if txt in ('inf', '+inf'):
            return 0x7ff0000000000000
        if txt == '-inf':
            return 0xfff0000000000000
        x = float.fromhex(txt) if ('0x' in txt or '0X' in txt) else float(txt)
        return struct.unpack('<Q', struct.pack('<d', x))[0]
    raise WatError('const type %s' % ty)
