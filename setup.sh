#!/bin/sh
# Build the framework from files on disk only (offline).
set -e
cd "$(dirname "$0")"
export CARGO_NET_OFFLINE=true
exec ./check --setup
